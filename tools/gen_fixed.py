#!/usr/bin/env python3
"""Regenerate the status=fixed entries of known_findings.json from the fix: commits of /repo (run by hand after a fix: commit, never at check time)."""
import json, subprocess
FIXMAP = {
 'keep scalar result points': ['C01', 'C06'],
 'give time() and pi()': ['C01', 'C06', 'C13'],
 'per-query lookback': ['C01', 'C02'],
 'without()': ['C01', 'C04'],
 'scalar() of an empty vector': ['C01', 'C06'],
 'step-invariant operator keeps': ['C01', 'C06', 'C18'],
 'topk/bottomk parameter handling': ['C04', 'C13', 'C18'],
 'recover panics on operator': ['C13'],
 'unary negation workers': ['C13', 'C18'],
 'histogram_quantile with a single bucket': ['C06'],
 'selectors emit one step vector': ['C06', 'C18'],
 'aggregation output vectors carry': ['C18', 'C19'],
 'drop the metric name with bool': ['C05'],
 'stddev/stdvar seed': ['C04'],
 'stddev/stdvar aggregations use': ['C04'],
 'rate() divides by the exact range': ['C03'],
 'instant functions drop samples': ['C06'],
 'in-engine select filter': ['C09'],
 'grouped min/max ignore NaN': ['C04'],
 'reject a parameter of 2^63': ['C04'],
 'plan traversal rewrites function arguments': ['C09', 'C10'],
 'one-to-one vector matching yields one output': ['C05', 'C19'],
 'matcher propagation keeps the metric name': ['C09'],
 'matcher propagation leaves selectors alone': ['C09'],
 'merge-selects compares matcher lists': ['C09'],
 'read remote results back without lookback': ['C10'],
 'remote executions use the lookback': ['C10'],
 'do not distribute expressions that select no series': ['C10'],
 'do not push down functions and aggregation parameters': ['C10'],
 'binary operator waits for both series loaders': ['C17'],
 'select hints follow Prometheus': ['C16'],
 'merge result series that share a label set': ['C19', 'C01'],
 'copy the points of a remote result': ['C12'],
 'scalar() declares the series': ['C18'],
 'synchronise the cancel function': ['C14', 'C12'],
 'operators which drop the metric name merge series': ['C01', 'C05', 'C06'],
 'timestamp() returns the timestamps': ['C06', 'C01'],
 'match vector-vector operands per step': ['C05', 'C01', 'C19'],
 'one-to-one match reports several matches': ['C05'],
 'sum and avg seed the accumulator': ['C04', 'C05'],
 'a cancelled evaluation is reported': ['C14'],
 'do not propagate matchers across a binary operator with an empty on()': ['C09'],
 'merge-selects keeps further matchers on the metric name': ['C09'],
 'recover panics of queries that fall back': ['C13'],
 'Cancel and Close of fallback queries': ['C20', 'C14'],
}
log = subprocess.run(['git', '-C', '/repo', 'log', '--format=%h %s', '--reverse'], capture_output=True, text=True).stdout.strip().split('\n')
p = '/verif/known_findings.json'
d = json.load(open(p))
d['findings'] = [f for f in d['findings'] if f.get('status') != 'fixed']
n = 0
for line in log:
    h, _, msg = line.partition(' ')
    if not msg.startswith('fix:'):
        continue
    props = None
    for k, v in FIXMAP.items():
        if k in msg:
            props = v
    if props is None:
        raise SystemExit('no property mapping for: ' + msg)
    n += 1
    d['findings'].append({"id": "FIX-%02d" % n, "status": "fixed", "properties": props, "commit": h, "what": msg[5:],
                          "line": "fixed: property=%s %s %s" % (props[0], h, msg[5:])})
json.dump(d, open(p, 'w'), indent=1)
print(n, 'fixed entries')
