#!/usr/bin/env python3
import json, glob, os
print("| seed | property | what the change does | needs | detected by (quick tier) |")
print("|---|---|---|---|---|")
for d in sorted(glob.glob('/verif/seeded/*/meta.json')):
    m = json.load(open(d))
    det = ', '.join(m.get('detected_by') or []) or '— (see note)'
    s = (m.get('summary') or '').replace('\n', ' ').replace('|', '/')
    n = (m.get('needs') or '')
    if isinstance(n, list): n = '; '.join(n)
    n = n.replace('\n', ' ').replace('|', '/')
    print("| %s | %s | %s | %s | %s |" % (m.get('id'), m.get('property'), s[:260], n[:260], det))
