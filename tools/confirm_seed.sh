#!/bin/bash
# usage: confirm_seed.sh <seed-dir> -- confirm in a scratch worktree that the seeded change compiles, passes the
# existing suite, and that its demonstration fails with it and passes without it.
set -u
export GOFLAGS=-mod=mod GOPROXY=off GOSUMDB=off GOTOOLCHAIN=local
d=$(readlink -f "$1")
id=$(basename "$d")
wt=/tmp/confirm-$id
git -C /repo worktree remove --force $wt >/dev/null 2>&1
git -C /repo worktree add --detach $wt HEAD -q || exit 2
cd $wt
demo_path=$(python3 -c "import json;print(json.load(open('$d/meta.json'))['demo_path'])")
demo_run=$(python3 -c "import json;print(json.load(open('$d/meta.json')).get('demo_run') or 'TestSeed')")
demo_pkg=./$(dirname $demo_path)/
res() { echo "$1"; }
git apply "$d/patch.diff" || { echo "APPLY-FAILED"; git -C /repo worktree remove --force $wt; exit 1; }
go build ./... || { echo "BUILD-FAILED"; git -C /repo worktree remove --force $wt; exit 1; }
suite=$(go test -vet=off -count=1 ./... 2>&1 | grep -E "^(ok|FAIL|---)" | grep -v "no test files" | tr '\n' ' ')
echo "suite-with-change: $suite"
cp "$d/$(ls $d | grep -E 'demo.*\.go$' | head -1)" $demo_path
go test -vet=off -count=1 -run "$demo_run" $demo_pkg > /tmp/confirm-$id-with.log 2>&1; with=$?
git checkout -q -- . 
go test -vet=off -count=1 -run "$demo_run" $demo_pkg > /tmp/confirm-$id-without.log 2>&1; without=$?
echo "demo-with-change rc=$with (want !=0); demo-without-change rc=$without (want 0)"
cd /; git -C /repo worktree remove --force $wt
case "$suite" in *FAIL*) echo "SUITE-FAILS"; exit 1;; esac
[ $with -ne 0 ] && [ $without -eq 0 ] && echo CONFIRMED && exit 0
echo NOT-CONFIRMED; exit 1
