#!/usr/bin/env python3
"""Sensitivity sweep (DESIGN.md 9): apply one small hand-written mutation to /repo at a time, run the quick
tier of the checks that are supposed to notice it, undo it. Usage: mutation_sweep.py [id ...]
Results are appended to /verif/seeded/mutation_sweep.json (the mutations are one-liners, they are kept here,
not as patch files)."""
import json, os, subprocess, sys, time

REPO = "/repo"
M = [
 # id, file, old, new, checks
 ("M01 lookback boundary < -> <=", "execution/scan/vector_selector.go", "t < refTime-lookbackDelta", "t <= refTime-lookbackDelta", ["C02", "C01"]),
 ("M02 no staleness test in selectPoint", "execution/scan/vector_selector.go", "\tif value.IsStaleNaN(v) {\n\t\treturn 0, 0, false, nil\n\t}\n\treturn t, v, true, nil", "\treturn t, v, true, nil", ["C02", "C19"]),
 ("M03 shard slice off by one", "execution/storage/series_selector.go", "end := (index + 1) * len(series) / numShards", "end := (index+1)*len(series)/numShards - 1", ["C02", "C11"]),
 ("M04 currentStep advances numSteps-1 (vector selector)", "execution/scan/vector_selector.go", "o.currentStep += o.step * int64(o.numSteps)", "o.currentStep += o.step * int64(o.numSteps-1)", ["C07", "C18"]),
 ("M05 window edge >= -> > (buffered points)", "execution/scan/matrix_selector.go", "if t >= mint {", "if t > mint {", ["C03"]),
 ("M06 accumulators not reset between steps", "execution/aggregate/scalar_table.go", "\tt.reset(arg)\n", "\tif false {\n\t\tt.reset(arg)\n\t}\n", ["C04", "C07"]),
 ("M07 swap by/without", "execution/execution.go", "aggregate.NewHashAggregate(model.NewVectorPool(stepsBatch), next, paramOp, e.Op, !e.Without,", "aggregate.NewHashAggregate(model.NewVectorPool(stepsBatch), next, paramOp, e.Op, e.Without,", ["C04"]),
 ("M08 topk comparator flipped", "execution/aggregate/khashaggregate.go", "\t\t\treturn f < s\n", "\t\t\treturn f > s\n", ["C04"]),
 ("M09 returnBool ignored in vector-vector op", "execution/binary/table.go", "\t\tif returnBool {\n\t\t\toutputVal = 0", "\t\tif returnBool && false {\n\t\t\toutputVal = 0", ["C05"]),
 ("M10 keep name on arithmetic", "execution/binary/table.go", "case parser.ADD, parser.SUB, parser.DIV, parser.MUL, parser.POW, parser.MOD:\n\t\treturn true", "case parser.ADD, parser.SUB, parser.DIV, parser.MUL, parser.POW, parser.MOD:\n\t\treturn false", ["C05"]),
 ("M11 skip the one-side duplicate check", "execution/binary/table.go", "\t\tif t.groupStep[group] == t.step {\n\t\t\treturn model.StepVector{}, &errManyToManyMatch{kind: errDuplicateOnOneSide", "\t\tif false && t.groupStep[group] == t.step {\n\t\t\treturn model.StepVector{}, &errManyToManyMatch{kind: errDuplicateOnOneSide", ["C05"]),
 ("M12 scalar() NaN rule (multi-element keeps first)", "execution/function/operator.go", "if len(vector.Samples) != 1 {", "if len(vector.Samples) == 0 {", ["C06"]),
 ("M13 ErrNotImplemented no longer triggers fallback", "engine/engine.go", "return errors.Is(err, parse.ErrNotSupportedExpr) || errors.Is(err, parse.ErrNotImplemented)", "return errors.Is(err, parse.ErrNotSupportedExpr)", ["C08"]),
 ("M14 counter label swapped (range queries)", "engine/engine.go", "\t\te.queries.WithLabelValues(\"true\").Inc()\n\t\treturn e.prom.NewRangeQuery", "\t\te.queries.WithLabelValues(\"false\").Inc()\n\t\treturn e.prom.NewRangeQuery", ["C08"]),
 ("M15 merge-selects subset test too permissive", "logicalplan/merge_selects.go", "\t\tif !containsMatcher(matcher, v) {\n\t\t\treturn nil, false\n\t\t}", "\t\tif !containsMatcher(matcher, v) && v.Type == labels.MatchEqual {\n\t\t\treturn nil, false\n\t\t}", ["C09"]),
 ("M16 avg treated as distributive", "logicalplan/distribute.go", "\tparser.SUM:     {},", "\tparser.SUM:     {},\n\tparser.AVG:     {},", ["C10"]),
 ("M17 no mutex in coalesce", "execution/exchange/coalesce.go", "\t\t\tc.mu.Lock()\n\t\t\tdefer c.mu.Unlock()\n", "", ["C12", "C11"]),
 ("M18 querier never closed", "execution/storage/series_selector.go", "\tdefer querier.Close()\n", "", ["C17"]),
 ("M19 querier closed twice", "execution/storage/series_selector.go", "\tdefer querier.Close()\n", "\tdefer querier.Close()\n\tdefer querier.Close()\n", ["C17"]),
 ("M20 series set error dropped", "execution/storage/series_selector.go", "\treturn seriesSet.Err()", "\t_ = seriesSet.Err()\n\treturn nil", ["C15"]),
 ("M21 iterator error dropped in selectPoints", "execution/scan/matrix_selector.go", "\t\tif it.Err() != nil {\n\t\t\treturn nil, it.Err()\n\t\t}", "", ["C15"]),
 ("M22 cancelled selector returns nil instead of ctx.Err()", "execution/scan/vector_selector.go", "\t\treturn nil, ctx.Err()", "\t\treturn nil, nil", ["C14"]),
 ("M23 drain goroutine removed", "execution/exchange/concurrent.go", "\t\tgo c.drainBufferOnCancel(ctx)\n", "", ["C14"]),
 ("M24 hints without offset", "execution/execution.go", "\toffset := n.OriginalOffset.Milliseconds()", "\toffset := int64(0)", ["C16"]),
 ("M25 labels edited in place (range functions)", "execution/scan/matrix_selector.go", "function.DropMetricName(lbls.Copy())", "function.DropMetricName(lbls)", ["C17"]),
 ("M26 result vectors returned to the pool before they are read", "engine/engine.go", "\t\t\tfor _, vector := range r {\n\t\t\t\tfor i, s := range vector.SampleIDs {", "\t\t\tfor _, vector := range r {\n\t\t\t\tq.Query.exec.GetPool().PutStepVector(vector)\n\t\t\t\tfor i, s := range vector.SampleIDs {", ["C01", "C12"]),
 ("M27 per-query lookback ignored again", "engine/engine.go", "\tif opts != nil && opts.LookbackDelta > 0 {", "\tif opts != nil && opts.LookbackDelta > 0 && false {", ["C02"]),
 ("M28 remote results read with the query lookback", "execution/remote/operator.go", "\tremoteOpts.LookbackDelta = 0\n", "", ["C10"]),
 ("M29 panic on the pull goroutine not recovered", "execution/exchange/concurrent.go", "\t\tif r := recover(); r != nil {\n\t\t\tc.buffer <- maybeStepVector{err: panicToError(r)}\n\t\t}", "", ["C13"]),
 ("M30 engine-level state: optimizer list shared and appended", "engine/engine.go", "\t\tlogicalOptimizers: opts.getLogicalOptimizers(),", "\t\tlogicalOptimizers: append(opts.getLogicalOptimizers(), logicalplan.SortMatchers{}),", ["C20", "C09"]),
 # ---- batch 2: value-level and edge-case mutations in every operator family ----
 ("M31 rate zero-point cap needs first sample > 0", "execution/function/functions.go", "if isCounter && resultValue > 0 && samples[0].V >= 0 {", "if isCounter && resultValue > 0 && samples[0].V > 0 {", ["C03", "C01"]),
 ("M32 extrapolation threshold 1.1 -> 1.2", "execution/function/functions.go", "averageDurationBetweenSamples * 1.1", "averageDurationBetweenSamples * 1.2", ["C03", "C01"]),
 ("M33 irate treats equal samples as reset", "execution/function/functions.go", "if isRate && lastSample.V < previousSample.V {", "if isRate && lastSample.V <= previousSample.V {", ["C03", "C01"]),
 ("M34 changes counts NaN->NaN", "execution/function/functions.go", "if current != prev && !(math.IsNaN(current) && math.IsNaN(prev)) {", "if current != prev {", ["C03", "C01"]),
 ("M35 resets counts equal values", "execution/function/functions.go", "\t\tif current < prev {\n\t\t\tcount++", "\t\tif current <= prev {\n\t\t\tcount++", ["C03", "C01"]),
 ("M36 max_over_time keeps leading NaN", "execution/function/functions.go", "if v.V > max || math.IsNaN(max) {", "if v.V > max {", ["C03", "C01"]),
 ("M37 avg_over_time: Inf then finite gives NaN", "execution/function/functions.go", "\t\t\tif !math.IsInf(v.V, 0) && !math.IsNaN(v.V) {", "\t\t\tif false && !math.IsInf(v.V, 0) && !math.IsNaN(v.V) {", ["C03", "C01"]),
 ("M38 deriv of constant Inf", "execution/function/functions.go", "\t\tif math.IsInf(initY, 0) {\n\t\t\treturn math.NaN(), math.NaN()\n\t\t}\n", "", ["C03", "C01"]),
 ("M39 sum_over_time loses Kahan compensation", "execution/function/functions.go", "\tif math.IsInf(sum, 0) {\n\t\treturn sum\n\t}\n\treturn sum + c", "\treturn sum", ["C03", "C01"]),
 ("M40 scalar operand of first step used for the whole batch", "execution/binary/scalar.go", "\t\t\tif len(scalarIn) > v && len(scalarIn[v].Samples) > 0 {\n\t\t\t\tscalarVal = scalarIn[v].Samples[0]", "\t\t\tif len(scalarIn) > v && len(scalarIn[0].Samples) > 0 {\n\t\t\t\tscalarVal = scalarIn[0].Samples[0]", ["C05", "C06", "C01"]),
 ("M41 max aggregation keeps NaN", "execution/aggregate/scalar_table.go", "if !hasValue || value < v || math.IsNaN(value) {", "if !hasValue || value < v {", ["C04", "C01"]),
 ("M42 quantile(1, ..) = +Inf", "execution/aggregate/scalar_table.go", "\tif q > 1 {\n\t\treturn math.Inf(+1)", "\tif q >= 1 {\n\t\treturn math.Inf(+1)", ["C04", "C01"]),
 ("M43 stddev aux not reset between batches", "execution/aggregate/scalar_table.go", "\t\t\t\t\tmean = 0\n\t\t\t\t\taux = 0\n\t\t\t\t},\n\t\t\t}\n\t\t}, nil\n\tcase \"stdvar\":", "\t\t\t\t\tmean = 0\n\t\t\t\t},\n\t\t\t}\n\t\t}, nil\n\tcase \"stdvar\":", ["C04", "C07"]),
 ("M44 group_left include keeps the many side's label when the one side lacks it", "execution/binary/vector.go", "\t\t\t\t} else {\n\t\t\t\t\tlb.Del(ln)\n\t\t\t\t}", "\t\t\t\t}", ["C05", "C01"]),
 ("M45 histogram_quantile lowest bucket bound test", "execution/function/quantile.go", "if b == 0 && buckets[0].upperBound <= 0 {", "if b == 0 && buckets[0].upperBound < 0 {", ["C06", "C01"]),
 ("M46 histogram buckets not made monotonic", "execution/function/quantile.go", "\t\tcase buckets[i].count < max:\n\t\t\tbuckets[i].count = max", "\t\tcase buckets[i].count < max:\n\t\t\t_ = max", ["C06", "C01"]),
 ("M47 equal bucket bounds not summed", "execution/function/quantile.go", "\t\t\tlast.count += b.count\n", "\t\t\t_ = b.count\n", ["C06", "C01"]),
 ("M48 histogram_quantile keeps the metric name", "execution/function/histogram.go", "\t\tlbls, _ = DropMetricName(lbls)\n", "", ["C06", "C01"]),
 ("M49 step invariant drops a last step on the grid", "execution/step_invariant/step_invariant.go", "for i := 0; i < u.stepsBatch && u.currentStep <= u.maxt; i++ {", "for i := 0; i < u.stepsBatch && (u.currentStep < u.maxt || u.currentStep == u.mint); i++ {", ["C07", "C01"]),
 ("M50 stale sample at the right window edge counted", "execution/scan/matrix_selector.go", "if t == maxt && !value.IsStaleNaN(v) {", "if t == maxt {", ["C03", "C19"]),
 ("M51 last retained point re-read (duplicate)", "execution/scan/matrix_selector.go", "mint = out[len(out)-1].T + 1", "mint = out[len(out)-1].T", ["C03", "C07"]),
 ("M52 lookback test uses the step time, not the offset time", "execution/scan/vector_selector.go", "if !ok || t < refTime-lookbackDelta {", "if !ok || t < ts-lookbackDelta {", ["C02", "C01"]),
 ("M53 instant vector keeps the sample timestamp", "engine/engine.go", "\t\t\t\t\tT: q.ts.UnixMilli(),\n\t\t\t\t},\n\t\t\t})", "\t\t\t\t\tT: series[i].Points[0].T,\n\t\t\t\t},\n\t\t\t})", ["C01", "C07"]),
 ("M54 same-labelset points at one step silently merged", "engine/engine.go", "\t\t\tcase last.Points[i].T == s.Points[j].T:\n\t\t\t\treturn nil, errSameLabelset", "\t\t\tcase last.Points[i].T == s.Points[j].T:\n\t\t\t\tj++", ["C01", "C19"]),
 ("M55 hints end ignores @", "execution/execution.go", "\t\tstart = *n.Timestamp\n\t\tend = *n.Timestamp", "\t\tstart = *n.Timestamp", ["C16"]),
 ("M56 grouping hint leaks through parentheses", "execution/execution.go", "\t\t// The grouping hint is only passed to a direct operand of an aggregation.\n\t\thints.Grouping = nil\n\t\thints.By = false\n", "", ["C16"]),
 ("M57 unary plus negates", "execution/execution.go", "\t\tcase parser.ADD:\n\t\t\treturn next, nil", "\t\tcase parser.ADD:\n\t\t\treturn unary.NewUnaryNegation(next, stepsBatch)", ["C06", "C01"]),
 ("M58 aggregation parameter hinted with the operand's grouping", "execution/execution.go", "\t\tif e.Param != nil {\n\t\t\thints.Grouping = nil\n\t\t\thints.By = false\n", "\t\tif e.Param != nil {\n", ["C16"]),
 ("M59 remote query ignores the query lookback", "execution/execution.go", "e.Engine.NewRangeQuery(&promql.QueryOpts{LookbackDelta: opts.LookbackDelta}, e.Query,", "e.Engine.NewRangeQuery(&promql.QueryOpts{}, e.Query,", ["C10"]),
 ("M60 without() keeps the metric name", "execution/aggregate/scalar_table.go", "\t\tlb.Del(labels.MetricName)\n\t\tkey, bytes := metric.HashWithoutLabels(buf, grouping...)", "\t\tkey, bytes := metric.HashWithoutLabels(buf, grouping...)", ["C04", "C01"]),
]

def sh(cmd, **kw):
    return subprocess.run(cmd, shell=True, stdout=subprocess.PIPE, stderr=subprocess.STDOUT, text=True, **kw)

def main():
    want = sys.argv[1:]
    out_path = "/verif/seeded/mutation_sweep.json"
    results = json.load(open(out_path)) if os.path.exists(out_path) else {}
    if sh("git -C /repo status --porcelain").stdout.strip():
        print("/repo not clean"); sys.exit(2)
    env = "export GOFLAGS=-mod=mod GOPROXY=off GOSUMDB=off GOTOOLCHAIN=local; "
    for mid, f, old, new, checks in M:
        key = mid.split()[0]
        if want and key not in want:
            continue
        p = os.path.join(REPO, f)
        s = open(p).read()
        if s.count(old) < 1:
            print(key, "SITE-NOT-FOUND", f); results[key] = {"mutation": mid, "status": "site-not-found"}; continue
        open(p, "w").write(s.replace(old, new, 1))
        try:
            b = sh(env + "cd /repo && go build ./... 2>&1 | tail -3")
            if b.stdout.strip():
                print(key, "DOES-NOT-BUILD", b.stdout.strip()[:200]); results[key] = {"mutation": mid, "status": "does-not-build"}; continue
            det = {}
            for c in checks:
                t0 = time.time()
                r = sh("cd /verif && ./check %s --no-evidence" % c)
                det[c] = {"rc": r.returncode, "s": round(time.time() - t0)}
            caught = [c for c in checks if det[c]["rc"] == 1]
            print(key, "caught by", caught or "NOTHING", det)
            results[key] = {"mutation": mid, "file": f, "checks": det, "caught_by": caught}
        finally:
            sh("git -C /repo checkout -- .")
        json.dump(results, open(out_path, "w"), indent=1)

if __name__ == "__main__":
    main()
