#!/usr/bin/env python3
import json, sys, re
p = sys.argv[1] + '/meta.json'
m = json.load(open(p))
dp = m.get('demo_path') or 'engine/seed_demo_test.go'
mm = re.search(r'[\w/]+_test\.go', dp)
m['demo_path'] = mm.group(0) if mm else 'engine/seed_demo_test.go'
m['demo_run'] = 'TestSeed'
json.dump(m, open(p, 'w'), indent=1)
print(m['demo_path'])
