#!/bin/bash
# usage: run_seed_scratch.sh <worktree-with-change-applied> <check-id>...
# Runs the quick tier of the given checks from a scratch copy of /verif against a scratch worktree of the
# repository (VERIF_REPO), so that /repo and /verif stay untouched (used while another sweep owns /repo).
# Experiments only: registered commands and committed evidence always come from /verif against /repo.
set -u
wt=$(readlink -f "$1"); shift
tag=$(basename $wt)
sc=/tmp/vscratch-$tag
rm -rf $sc; mkdir -p $sc
rsync -a --exclude .git --exclude evidence --exclude replays --exclude 'harness/.bin' /verif/ $sc/
cd $sc
for c in "$@"; do
  s=$(date +%s)
  VERIF_REPO=$wt ./check $c --no-evidence > /tmp/seedrun-$tag-$c.log 2>&1; rc=$?
  echo "$tag $c rc=$rc $(( $(date +%s)-s ))s $(grep -c '^VIOLATION' /tmp/seedrun-$tag-$c.log) violation line(s)"
  if [ $rc -eq 1 ]; then mkdir -p /tmp/seedrep-$tag; cp -r $sc/replays/$c /tmp/seedrep-$tag/ 2>/dev/null; fi
done
rm -rf $sc
