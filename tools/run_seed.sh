#!/bin/bash
# usage: run_seed.sh <seed-dir> <check-id>... -- apply the seeded change to /repo, run the given quick checks, undo it.
set -u
d=$(readlink -f "$1"); shift
cd /verif
if [ -n "$(git -C /repo status --porcelain)" ]; then echo "/repo not clean"; exit 2; fi
git -C /repo apply "$d/patch.diff" || { echo APPLY-FAILED; exit 2; }
trap 'git -C /repo checkout -q -- .' EXIT
for c in "$@"; do
  s=$(date +%s)
  ./check $c --no-evidence > /tmp/seedrun-$(basename $d)-$c.log 2>&1; rc=$?
  echo "$(basename $d) $c rc=$rc $(( $(date +%s)-s ))s $(grep -c '^VIOLATION' /tmp/seedrun-$(basename $d)-$c.log) violation line(s)"
done
