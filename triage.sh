#!/bin/bash
# usage: triage.sh ID [checks]   -- run a quick sample and print each distinct failure compactly
cd "$(dirname "$(readlink -f "$0")")"
rm -rf replays/$1
./check $1 --checks ${2:-2000} --no-evidence > /tmp/triage-$1.log 2>&1
echo "exit=$?"
grep -E "^property=|^INCONCLUSIVE|^  " /tmp/triage-$1.log | head -20
for f in replays/$1/*.json; do [ -f "$f" ] || continue; python3 - "$f" <<'PY'
import json,sys
d=json.load(open(sys.argv[1]))
print('==',sys.argv[1],'nseries',len(d['case'].get('series',[])))
print(d['verdict']['detail'][:int(1500)])
PY
done
