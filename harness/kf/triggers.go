package kf

import (
	"github.com/prometheus/prometheus/model/labels"
	"github.com/prometheus/prometheus/promql/parser"

	"verifharness/core"
)

func anyNode(expr parser.Expr, pred func(n parser.Node, path []parser.Node) bool) bool {
	if expr == nil {
		return false
	}
	found := false
	parser.Inspect(expr, func(n parser.Node, path []parser.Node) error {
		if n != nil && !found && pred(n, path) {
			found = true
		}
		return nil
	})
	return found
}

func unwrap(e parser.Expr) parser.Expr {
	for {
		switch x := e.(type) {
		case *parser.ParenExpr:
			e = x.Expr
		case *parser.StepInvariantExpr:
			e = x.Expr
		default:
			return e
		}
	}
}

func init() {
	// KF-timestamp-at-offset: timestamp() directly over a selector that carries both an
	// @ modifier and an offset (the pinned Prometheus drops the offset there).
	Register("timestamp-of-at-offset-selector", func(c *core.Case, expr parser.Expr) bool {
		return anyNode(expr, func(n parser.Node, _ []parser.Node) bool {
			call, ok := n.(*parser.Call)
			if !ok || call.Func.Name != "timestamp" || len(call.Args) != 1 {
				return false
			}
			vs, ok := unwrap(call.Args[0]).(*parser.VectorSelector)
			return ok && (vs.Timestamp != nil || vs.StartOrEnd != 0) && vs.OriginalOffset != 0
		})
	})
	// KF-param-at: promql.PreprocessExpr never visits aggregation parameters, so a
	// selector with a literal @ inside a parameter is not wrapped as step invariant; in a
	// range query it is then evaluated at every step with the offset (start - t) that
	// was computed for the first step.
	Register("agg-param-selector-with-at", func(c *core.Case, expr parser.Expr) bool {
		if c.Step == 0 || c.End <= c.Start {
			return false
		}
		return anyNode(expr, func(n parser.Node, _ []parser.Node) bool {
			agg, ok := n.(*parser.AggregateExpr)
			if !ok || agg.Param == nil {
				return false
			}
			return anyNode(agg.Param, func(m parser.Node, _ []parser.Node) bool {
				vs, ok := m.(*parser.VectorSelector)
				return ok && vs.Timestamp != nil
			})
		})
	})
	// KF-histogram-names: histogram_quantile over an argument whose selectors can match
	// bucket series of more than one metric name (no equality matcher on __name__): the
	// pinned Prometheus keeps histograms of different metrics apart (and then fails with
	// "same labelset" when they only differ in the name), the engine merges their buckets.
	Register("histogram-quantile-over-several-names", func(c *core.Case, expr parser.Expr) bool {
		return anyNode(expr, func(n parser.Node, _ []parser.Node) bool {
			call, ok := n.(*parser.Call)
			if !ok || call.Func.Name != "histogram_quantile" || len(call.Args) != 2 {
				return false
			}
			return anyNode(call.Args[1], func(m parser.Node, _ []parser.Node) bool {
				vs, ok := m.(*parser.VectorSelector)
				if !ok {
					return false
				}
				for _, lm := range vs.LabelMatchers {
					if lm.Name == "__name__" && lm.Type == labels.MatchEqual {
						return false
					}
				}
				return true
			})
		})
	})
	// KF-include: group_left/group_right with a non-empty include list takes the
	// included labels from the first "one"-side series of the match group, not from
	// the one that has a sample at the step.
	Register("group-include-labels", func(c *core.Case, expr parser.Expr) bool {
		return anyNode(expr, func(n parser.Node, _ []parser.Node) bool {
			b, ok := n.(*parser.BinaryExpr)
			return ok && b.VectorMatching != nil && b.VectorMatching.Card != parser.CardOneToOne && len(b.VectorMatching.Include) > 0
		})
	})
}
