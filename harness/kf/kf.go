// Package kf holds the trigger predicates of recorded known findings. A trigger is a
// named predicate over the *input* (the case); known_findings.json (committed, never
// written at run time) says which findings are open. A case that matches an open
// trigger is excluded by construction and counted.
package kf

import (
	"encoding/json"
	"os"
	"sync"

	"github.com/prometheus/prometheus/promql/parser"

	"verifharness/core"
)

// Finding is one entry of known_findings.json.
type Finding struct {
	ID         string   `json:"id"`
	Status     string   `json:"status"` // "open" | "fixed"
	Properties []string `json:"properties"`
	What       string   `json:"what"`
	Trigger    string   `json:"trigger,omitempty"`
	Replay     string   `json:"replay,omitempty"`
	Commit     string   `json:"commit,omitempty"`
	Line       string   `json:"line,omitempty"`
}

type File struct {
	Findings []Finding `json:"findings"`
}

// Trigger is a predicate over the case and its parsed query (nil if unparsable).
type Trigger func(c *core.Case, expr parser.Expr) bool

var triggers = map[string]Trigger{}

// lazy triggers are expensive (they evaluate the input with the reference engine);
// they are only consulted after a check found a difference (MatchAfterFailure).
var lazy = map[string]bool{}

func Register(name string, t Trigger) { triggers[name] = t }

func RegisterLazy(name string, t Trigger) { triggers[name] = t; lazy[name] = true }

var (
	once sync.Once
	open []Finding
)

func Path() string {
	if p := os.Getenv("VERIF_KF"); p != "" {
		return p
	}
	return "/verif/known_findings.json"
}

func Load() []Finding {
	once.Do(func() {
		b, err := os.ReadFile(Path())
		if err != nil {
			return
		}
		var f File
		if json.Unmarshal(b, &f) != nil {
			return
		}
		for _, x := range f.Findings {
			if x.Status == "open" {
				open = append(open, x)
			}
		}
	})
	return open
}

// Match returns the id of the first open finding that applies to the case's
// property and whose trigger matches, or "".
func Match(c *core.Case) string { return match(c, false) }

// MatchAfterFailure also consults the lazy triggers.
func MatchAfterFailure(c *core.Case) string { return match(c, true) }

func match(c *core.Case, withLazy bool) string {
	fs := Load()
	if len(fs) == 0 {
		return ""
	}
	var expr parser.Expr
	if c.Query != "" {
		var err error
		if expr, err = parser.ParseExpr(c.Query); err != nil {
			expr = nil
		}
	}
	for _, f := range fs {
		applies := false
		for _, p := range f.Properties {
			if p == c.Prop {
				applies = true
			}
		}
		if !applies {
			continue
		}
		t, ok := triggers[f.Trigger]
		if !ok || (lazy[f.Trigger] && !withLazy) {
			continue
		}
		if t(c, expr) {
			return f.ID
		}
	}
	return ""
}

// Open reports whether the finding with this id is listed as open.
func Open(id string) bool {
	for _, f := range Load() {
		if f.ID == id {
			return true
		}
	}
	return false
}
