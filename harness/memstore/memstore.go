// Package memstore is an in-memory storage.Queryable with instrumentation and
// fault injection. Data lives in a Store; every query under test reads through a
// Session (a storage.Queryable view) that carries its own counters, recordings and
// fault script, so several queries can share one Store.
package memstore

import (
	"context"
	"errors"
	"fmt"
	"runtime"
	"sort"
	"strings"
	"sync"
	"sync/atomic"
	"time"

	"github.com/prometheus/prometheus/model/histogram"
	"github.com/prometheus/prometheus/model/labels"
	"github.com/prometheus/prometheus/storage"
	"github.com/prometheus/prometheus/tsdb/chunkenc"

	"verifharness/core"
)

// ErrInjected is the error returned by "error" faults.
var ErrInjected = errors.New("memstore: injected storage failure")

var errInjectedPanic = errors.New("memstore: injected panic (error value)")

type series struct {
	lset    labels.Labels // handed out as-is on every call (shared backing array)
	mu      sync.Mutex
	samples []core.Sample
}

func (s *series) snapshot() []core.Sample {
	s.mu.Lock()
	defer s.mu.Unlock()
	return s.samples[:len(s.samples):len(s.samples)]
}

// Store holds the data.
type Store struct {
	mu     sync.RWMutex
	series []*series // sorted by labels
}

func New(in []core.Series) *Store {
	st := &Store{}
	for _, s := range in {
		st.addLocked(s)
	}
	return st
}

func (st *Store) addLocked(s core.Series) {
	smp := make([]core.Sample, len(s.Samples))
	copy(smp, s.Samples)
	st.series = append(st.series, &series{lset: s.Lset(), samples: smp})
	sort.SliceStable(st.series, func(i, j int) bool { return labels.Compare(st.series[i].lset, st.series[j].lset) < 0 })
}

// AddSeries adds a new series (C20).
func (st *Store) AddSeries(s core.Series) {
	st.mu.Lock()
	defer st.mu.Unlock()
	st.addLocked(s)
}

// Append appends samples to the series with the given label set (C20).
func (st *Store) Append(lset labels.Labels, pts []core.Sample) {
	st.mu.RLock()
	defer st.mu.RUnlock()
	for _, s := range st.series {
		if labels.Equal(s.lset, lset) {
			s.mu.Lock()
			s.samples = append(s.samples, pts...)
			s.mu.Unlock()
			return
		}
	}
}

// Dump returns a deep copy of the store content (labels and samples).
func (st *Store) Dump() []core.Series {
	st.mu.RLock()
	defer st.mu.RUnlock()
	out := make([]core.Series, 0, len(st.series))
	for _, s := range st.series {
		cs := core.Series{}
		for _, l := range s.lset {
			cs.Labels = append(cs.Labels, core.Label{N: l.Name, V: l.Value})
		}
		cs.Samples = append(cs.Samples, s.snapshot()...)
		out = append(out, cs)
	}
	return out
}

// SelectRec records one Select call.
type SelectRec struct {
	Mint, Maxt int64 // of the querier
	Sorted     bool
	Hints      storage.SelectHints
	HasHints   bool
	Matchers   []string
}

func (r SelectRec) Key(withQuerierRange bool) string {
	ms := append([]string(nil), r.Matchers...)
	sort.Strings(ms)
	g := append([]string(nil), r.Hints.Grouping...)
	sort.Strings(g) // the grouping is a set of labels; the order in which it is written is not part of the contract
	k := fmt.Sprintf("{%s} start=%d end=%d step=%d range=%d func=%q by=%v grouping=%v",
		strings.Join(ms, ","), r.Hints.Start, r.Hints.End, r.Hints.Step, r.Hints.Range, r.Hints.Func, r.Hints.By, g)
	if withQuerierRange {
		k += fmt.Sprintf(" q=[%d,%d]", r.Mint, r.Maxt)
	}
	return k
}

// Session is a per-query view of a Store.
type Session struct {
	st *Store
	// root: this session is a view of another store that shares the fault script, the
	// counters and the querier / select accounting of root (partitions of a distributed case).
	root *Session

	Shuffle uint64
	Trim    bool
	Delay   uint64
	Faults  []core.Fault
	// Cancel is invoked by "cancel" faults.
	Cancel func()
	// HonourCtx makes Querier() and Select fail with the context's error once the
	// context is done, like storages that check their context do.
	HonourCtx bool

	mu       sync.Mutex
	counts   map[string]int
	total    int
	fired    []bool
	firedGo  []int64
	firedAt  []int
	selects  []SelectRec
	queriers []*querier

	inflight    int32
	MaxInflight int32
	cb          uint64
}

func (st *Store) Session() *Session {
	return &Session{st: st, counts: map[string]int{}}
}

// View returns a queryable over another store whose callbacks count, fault and are
// accounted as callbacks of s.
func (s *Session) View(st *Store) *Session {
	return &Session{st: st, root: s}
}

func (s *Session) r() *Session {
	if s.root != nil {
		return s.root
	}
	return s
}

func (s *Session) WithFaults(f ...core.Fault) *Session {
	s.Faults = f
	s.fired = make([]bool, len(f))
	s.firedGo = make([]int64, len(f))
	s.firedAt = make([]int, len(f))
	return s
}

// Counts returns callback counts by class and the total.
func (s *Session) Counts() (map[string]int, int) {
	s.mu.Lock()
	defer s.mu.Unlock()
	m := make(map[string]int, len(s.counts))
	for k, v := range s.counts {
		m[k] = v
	}
	return m, s.total
}

func (s *Session) Fired(i int) (bool, int64, int) {
	s.mu.Lock()
	defer s.mu.Unlock()
	if i >= len(s.fired) {
		return false, 0, 0
	}
	return s.fired[i], s.firedGo[i], s.firedAt[i]
}

func (s *Session) AnyFired() bool {
	s.mu.Lock()
	defer s.mu.Unlock()
	for _, f := range s.fired {
		if f {
			return true
		}
	}
	return false
}

func (s *Session) Selects() []SelectRec {
	s.mu.Lock()
	defer s.mu.Unlock()
	return append([]SelectRec(nil), s.selects...)
}

// QuerierStats returns for every opened querier how often it was closed.
func (s *Session) QuerierStats() (opened int, closes []int) {
	s.mu.Lock()
	defer s.mu.Unlock()
	for _, q := range s.queriers {
		closes = append(closes, int(atomic.LoadInt32(&q.closed)))
	}
	return len(s.queriers), closes
}

func goid() int64 {
	var buf [64]byte
	n := runtime.Stack(buf[:], false)
	// "goroutine 123 ["
	f := strings.Fields(string(buf[:n]))
	if len(f) < 2 {
		return -1
	}
	var id int64
	fmt.Sscanf(f[1], "%d", &id)
	return id
}

type faultAction int

const (
	actNone faultAction = iota
	actError
)

// hit is called at every storage callback. It applies delay scripts and faults.
// It returns actError when an "error" fault fires (the caller turns that into the
// API's way of reporting a failure). Panics, cancellation and blocking are
// performed here.
func (s *Session) hit(class string, ctx context.Context) faultAction {
	s.mu.Lock()
	n := s.counts[class]
	s.counts[class] = n + 1
	tot := s.total
	s.total++
	var fire *core.Fault
	for i := range s.Faults {
		f := &s.Faults[i]
		if s.fired[i] && f.Kind != "error" {
			continue
		}
		if (f.Class == "any" && f.K == tot) || (f.Class == class && f.K == n) {
			if !s.fired[i] {
				s.fired[i] = true
				s.firedGo[i] = goid()
				s.firedAt[i] = tot
			}
			fire = f
			break
		}
	}
	delay := s.Delay
	s.mu.Unlock()

	if delay != 0 {
		x := splitmix(delay + uint64(tot)*0x9e3779b97f4a7c15)
		switch x % 16 {
		case 0, 1, 2:
			runtime.Gosched()
		case 3:
			time.Sleep(time.Duration(x>>8%50) * time.Microsecond)
		}
	}
	if fire == nil {
		return actNone
	}
	switch fire.Kind {
	case "panic":
		var a []int
		_ = a[fire.K+1] // a genuine runtime.Error
	case "panicstr":
		// a panic whose value is not an error (storages do panic("..."))
		panic(fmt.Sprintf("memstore: injected panic at callback %d", fire.K))
	case "panicerr":
		// a panic whose value is an error, but not a runtime.Error
		panic(errInjectedPanic)
	case "error":
		return actError
	case "cancel", "cancelquery", "cancelslow":
		if s.Cancel != nil {
			s.Cancel()
		}
		if fire.Kind == "cancelslow" {
			// a storage that takes a while to come back after the cancellation
			time.Sleep(3 * time.Millisecond)
		}
	case "block", "blockdl", "blockq", "blockclose":
		if ctx != nil {
			<-ctx.Done()
		}
	}
	return actNone
}

func splitmix(x uint64) uint64 {
	x += 0x9e3779b97f4a7c15
	x = (x ^ (x >> 30)) * 0xbf58476d1ce4e5b9
	x = (x ^ (x >> 27)) * 0x94d049bb133111eb
	return x ^ (x >> 31)
}

// Querier implements storage.Queryable.
func (s *Session) Querier(ctx context.Context, mint, maxt int64) (storage.Querier, error) {
	data := s.st
	s = s.r()
	if s.hit("querier", ctx) == actError {
		return nil, ErrInjected
	}
	if s.HonourCtx && ctx != nil && ctx.Err() != nil {
		return nil, ctx.Err()
	}
	q := &querier{s: s, st: data, ctx: ctx, mint: mint, maxt: maxt}
	s.mu.Lock()
	s.queriers = append(s.queriers, q)
	s.mu.Unlock()
	return q, nil
}

type querier struct {
	s          *Session
	st         *Store
	ctx        context.Context
	mint, maxt int64
	closed     int32
}

func (q *querier) LabelValues(string, ...*labels.Matcher) ([]string, storage.Warnings, error) {
	return nil, nil, nil
}
func (q *querier) LabelNames(...*labels.Matcher) ([]string, storage.Warnings, error) {
	return nil, nil, nil
}
func (q *querier) Close() error {
	atomic.AddInt32(&q.closed, 1)
	return nil
}

func (q *querier) Select(sortSeries bool, hints *storage.SelectHints, matchers ...*labels.Matcher) storage.SeriesSet {
	s := q.s
	rec := SelectRec{Mint: q.mint, Maxt: q.maxt, Sorted: sortSeries}
	if hints != nil {
		rec.Hints = *hints
		rec.Hints.Grouping = append([]string(nil), hints.Grouping...)
		rec.HasHints = true
	}
	for _, m := range matchers {
		rec.Matchers = append(rec.Matchers, m.String())
	}
	s.mu.Lock()
	s.selects = append(s.selects, rec)
	s.mu.Unlock()

	if s.hit("select", q.ctx) == actError {
		return &seriesSet{q: q, err: ErrInjected}
	}
	if s.HonourCtx && q.ctx != nil && q.ctx.Err() != nil {
		return &seriesSet{q: q, err: q.ctx.Err()}
	}

	q.st.mu.RLock()
	var out []*series
	for _, sr := range q.st.series {
		ok := true
		for _, m := range matchers {
			if !m.Matches(sr.lset.Get(m.Name)) {
				ok = false
				break
			}
		}
		if ok {
			out = append(out, sr)
		}
	}
	q.st.mu.RUnlock()
	if !sortSeries && s.Shuffle != 0 {
		// Deterministic permutation (Fisher-Yates driven by splitmix).
		x := s.Shuffle
		for i := len(out) - 1; i > 0; i-- {
			x = splitmix(x)
			j := int(x % uint64(i+1))
			out[i], out[j] = out[j], out[i]
		}
	}
	lo, hi := int64(-1<<62), int64(1<<62)
	if s.Trim && hints != nil {
		lo, hi = hints.Start, hints.End
	}
	return &seriesSet{q: q, list: out, idx: -1, lo: lo, hi: hi}
}

type seriesSet struct {
	q      *querier
	list   []*series
	idx    int
	err    error
	lo, hi int64
}

func (ss *seriesSet) Next() bool {
	if ss.err != nil {
		return false
	}
	if ss.q.s.hit("ssnext", ss.q.ctx) == actError {
		ss.err = ErrInjected
		return false
	}
	ss.idx++
	return ss.idx < len(ss.list)
}

func (ss *seriesSet) At() storage.Series {
	return &seriesView{q: ss.q, s: ss.list[ss.idx], lo: ss.lo, hi: ss.hi}
}

func (ss *seriesSet) Err() error {
	if ss.err != nil {
		return ss.err
	}
	if ss.q.s.hit("sserr", ss.q.ctx) == actError {
		ss.err = ErrInjected
	}
	return ss.err
}

func (ss *seriesSet) Warnings() storage.Warnings { return nil }

type seriesView struct {
	q      *querier
	s      *series
	lo, hi int64
}

func (v *seriesView) Labels() labels.Labels {
	v.q.s.hit("labels", v.q.ctx)
	return v.s.lset
}

func (v *seriesView) Iterator() chunkenc.Iterator {
	v.q.s.hit("iterator", v.q.ctx)
	smp := v.s.snapshot()
	if v.lo > -1<<62 {
		a := sort.Search(len(smp), func(i int) bool { return smp[i].T >= v.lo })
		b := sort.Search(len(smp), func(i int) bool { return smp[i].T > v.hi })
		smp = smp[a:b]
	}
	return &iter{q: v.q, smp: smp, idx: -1}
}

type iter struct {
	q   *querier
	smp []core.Sample
	idx int
	err error
}

func (it *iter) enter() {
	n := atomic.AddInt32(&it.q.s.inflight, 1)
	for {
		m := atomic.LoadInt32(&it.q.s.MaxInflight)
		if n <= m || atomic.CompareAndSwapInt32(&it.q.s.MaxInflight, m, n) {
			break
		}
	}
}
func (it *iter) leave() { atomic.AddInt32(&it.q.s.inflight, -1) }

func (it *iter) Next() chunkenc.ValueType {
	if it.err != nil {
		return chunkenc.ValNone
	}
	if it.q.s.hit("next", it.q.ctx) == actError {
		it.err = ErrInjected
		return chunkenc.ValNone
	}
	if it.idx < len(it.smp) {
		it.idx++
	}
	if it.idx >= len(it.smp) {
		return chunkenc.ValNone
	}
	return chunkenc.ValFloat
}

func (it *iter) Seek(t int64) chunkenc.ValueType {
	if it.err != nil {
		return chunkenc.ValNone
	}
	it.enter()
	defer it.leave()
	if it.q.s.hit("seek", it.q.ctx) == actError {
		it.err = ErrInjected
		return chunkenc.ValNone
	}
	if it.idx < 0 {
		it.idx = 0
	}
	if it.idx >= len(it.smp) {
		return chunkenc.ValNone
	}
	if it.smp[it.idx].T >= t {
		return chunkenc.ValFloat
	}
	rest := it.smp[it.idx:]
	it.idx += sort.Search(len(rest), func(i int) bool { return rest[i].T >= t })
	if it.idx >= len(it.smp) {
		return chunkenc.ValNone
	}
	return chunkenc.ValFloat
}

func (it *iter) At() (int64, float64) {
	it.q.s.hit("at", it.q.ctx)
	s := it.smp[it.idx]
	return s.T, float64(s.V)
}

func (it *iter) AtHistogram() (int64, *histogram.Histogram) { return 0, nil }
func (it *iter) AtFloatHistogram() (int64, *histogram.FloatHistogram) {
	return 0, nil
}
func (it *iter) AtT() int64 { return it.smp[it.idx].T }

func (it *iter) Err() error {
	if it.err != nil {
		return it.err
	}
	it.q.s.hit("iterr", it.q.ctx)
	return it.err
}
