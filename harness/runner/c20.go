package runner

import (
	"context"
	"fmt"

	"github.com/prometheus/prometheus/promql"

	"verifharness/core"
	"verifharness/kf"
	"verifharness/memstore"
	"verifharness/oracle"
)

func init() {
	// C20: no state leaks between queries; returned results stay untouched.
	register("C20", func(c *core.Case) core.Verdict {
		SetProcs(c.Procs)
		st := memstore.New(c.Series)
		eng := NewEngine(c.Lookback, c.Opt, true)
		shared := st.Session()
		shared.Shuffle = c.Shuffle
		type held struct {
			at     int
			q      promql.Query
			raw    *promql.Result
			snap   *oracle.Res
			closed bool
			text   string
			skip   bool // KF-fallback-close: not re-checked after its Close
		}
		skipped := 0
		var helds []*held
		lastRun := map[string]int{} // query text -> index of the data version it last ran on
		dataVersion := 0
		changedBetweenSame := false
		recheckedLate := false
		evals := 0
		exact := oracle.Tol{}
		tol := oracle.DefaultTol(1e6)
		hdr := func(i int) string {
			return fmt.Sprintf("history of %d actions, failing at action #%d %+v\n", len(c.Hist), i, c.Hist[i])
		}
		for i, a := range c.Hist {
			switch a.Op {
			case "query", "cancelquery":
				// the long-lived engine is always given the same queryable, like an embedding
				// application that passes its one storage to every query
				sess := shared
				qo := QueryOpts(a.QLookback)
				q, err := Create(eng, sess, qo, a.Query, a.Start, a.End, a.Step)
				if err != nil {
					// a fresh engine must reject it as well
					_, err2 := Create(NewEngine(c.Lookback, c.Opt, true), st.Session(), qo, a.Query, a.Start, a.End, a.Step)
					if err2 == nil {
						return violation("%sthe long-lived engine rejects the query (%v), a fresh engine accepts it", hdr(i), err)
					}
					continue
				}
				ctx, cancel := context.WithCancel(context.Background())
				if a.Op == "cancelquery" {
					cancel()
				}
				raw := q.Exec(ctx)
				cancel()
				evals++
				snap := oracle.FromResult(raw)
				helds = append(helds, &held{at: i, q: q, raw: raw, snap: snap, text: a.Query})
				if a.Op == "cancelquery" {
					if snap.Err == nil {
						// a context cancelled before Exec: only a complete result would be acceptable
						fs := st.Session()
						fs.Shuffle = c.Shuffle
						fresh, _ := Run(context.Background(), NewEngine(c.Lookback, c.Opt, true), fs, qo, a.Query, a.Start, a.End, a.Step)
						if fresh != nil && oracle.Equal(snap, fresh, tol) != "" {
							return violation("%sExec with an already cancelled context returned a successful result that is not the complete result", hdr(i))
						}
					}
					continue
				}
				fs := st.Session()
				fs.Shuffle = c.Shuffle
				fresh, ferr := Run(context.Background(), NewEngine(c.Lookback, c.Opt, true), fs, qo, a.Query, a.Start, a.End, a.Step)
				evals++
				if ferr != nil {
					return violation("%sa fresh engine rejects the query (%v) that the long-lived engine accepted", hdr(i), ferr)
				}
				if d := oracle.Equal(snap, fresh, tol); d != "" {
					_, expr, _ := ExprType(a.Query)
					kc := &core.Case{Query: a.Query, Series: st.Dump(), Start: a.Start, End: a.End, Step: a.Step, Lookback: c.Lookback, QLookback: a.QLookback, Shuffle: c.Shuffle}
					if expr != nil && TopkAmbiguous(kc, expr, st) {
						continue
					}
					if id := knownDifferential(c, a.Query, st.Dump(), a.Start, a.End, a.Step); id != "" {
						continue
					}
					return violation("%squery %q: the long-lived engine's result differs from a freshly constructed engine's on the same data: %s\nlong-lived: %s\nfresh:      %s\n", hdr(i), a.Query, d, snap, fresh)
				}
				if v, ok := lastRun[a.Query]; ok && v != dataVersion {
					changedBetweenSame = true
				}
				lastRun[a.Query] = dataVersion
			case "append":
				all := st.Dump()
				if len(all) == 0 {
					continue
				}
				s := all[a.Idx%len(all)]
				last := int64(0)
				if len(s.Samples) > 0 {
					last = s.Samples[len(s.Samples)-1].T
				}
				var pts []core.Sample
				for _, p := range a.Points {
					last += p.T // p.T is a positive delta
					pts = append(pts, core.Sample{T: last, V: p.V})
				}
				st.Append(s.Lset(), pts)
				dataVersion++
			case "addseries":
				if a.Series != nil {
					dup := false
					for _, s := range st.Dump() {
						if s.Lset().String() == a.Series.Lset().String() {
							dup = true
						}
					}
					if !dup {
						st.AddSeries(*a.Series)
						dataVersion++
					}
				}
			case "close":
				if len(helds) > 0 {
					h := helds[a.Idx%len(helds)]
					if !h.closed {
						h.q.Close()
						h.closed = true
						if pathOf(h.q) == "fallback" && kf.Open("KF-fallback-close") {
							h.skip = true
							skipped++
						}
					}
				}
			}
			// every earlier result still equals the snapshot taken when it was returned
			for _, h := range helds {
				if h.skip {
					continue
				}
				now := oracle.FromResult(h.raw)
				if d := oracle.Equal(now, h.snap, exact); d != "" {
					return violation("%sthe result returned by action #%d (%q) was altered afterwards: %s\nnow:      %s\nsnapshot: %s\n", hdr(i), h.at, h.text, d, now, h.snap)
				}
				if (now.Err == nil) != (h.snap.Err == nil) {
					return violation("%sthe result returned by action #%d changed its error afterwards", hdr(i), h.at)
				}
				if i-h.at >= 5 {
					recheckedLate = true
				}
			}
		}
		for _, h := range helds {
			if !h.closed {
				h.q.Close()
			}
		}
		v := core.Verdict{Status: "ok", Nontrivial: changedBetweenSame && recheckedLate, Evals: evals, Features: []string{fmt.Sprintf("histlen:%s", bucket(len(c.Hist)))}}
		if skipped > 0 {
			v.Features = append(v.Features, "excluded:KF-fallback-close")
		}
		return v
	})
}
