package runner

import (
	"context"
	"fmt"
	"time"

	"github.com/prometheus/prometheus/promql/parser"

	"github.com/thanos-community/promql-engine/logicalplan"

	"verifharness/core"
	"verifharness/memstore"
	"verifharness/oracle"
)

var optSets = []string{"sort", "merge", "sortmerge", "propagate", "sortpropagate", "all"}

func planString(query, opt string, start, end int64) string {
	expr, err := parser.ParseExpr(query)
	if err != nil {
		return "parse error"
	}
	opts := Optimizers(opt)
	if opts == nil {
		opts = logicalplan.DefaultOptimizers
	}
	return logicalplan.New(expr, time.UnixMilli(start), time.UnixMilli(end)).Optimize(opts).Expr().String()
}

func init() {
	// C09: optimizers never change a result (engine against itself).
	register("C09", func(c *core.Case) core.Verdict {
		SetProcs(c.Procs)
		_, expr, perr := ExprType(c.Query)
		if perr != nil {
			return core.Verdict{Status: "skip", Detail: "parse error: " + perr.Error()}
		}
		feats := Features(c, expr)
		st := memstore.New(c.Series)
		qo := QueryOpts(c.QLookback)
		ctx := context.Background()
		run := func(opt string) (*oracle.Res, error) {
			return Run(ctx, NewEngine(c.Lookback, opt, false), NewSession(st, c), qo, c.Query, c.Start, c.End, c.Step)
		}
		base, berr := run("none")
		if berr != nil && IsUnsupported(berr) {
			return core.Verdict{Status: "skip", Detail: "fallback", Features: feats}
		}
		basePlan := planString(c.Query, "none", c.Start, c.End)
		tol := TolOf(c)
		rewrote := false
		evals := 1
		for _, o := range optSets {
			p := planString(c.Query, o, c.Start, c.End)
			if p == basePlan && o != "all" {
				continue // this optimizer set leaves the plan alone: nothing to compare
			}
			if p != basePlan {
				rewrote = true
				feats = append(feats, "rewrote:"+o)
			}
			r, err := run(o)
			evals++
			if (err != nil) != (berr != nil) {
				return violation("query: %s\noptimizers=%s: creation error differs: %v vs (none) %v\nplan: %s\n", c.Query, o, err, berr, p)
			}
			if err != nil {
				continue
			}
			if d := oracle.Equal(r, base, tol); d != "" {
				if (hasFeat(feats, "agg:topk") || hasFeat(feats, "agg:bottomk")) && TopkAmbiguous(c, expr, st) {
					feats = append(feats, "topk-tie-not-judged")
					continue
				}
				if id := knownDifferential(c, c.Query, c.Series, c.Start, c.End, c.Step); id != "" {
					return core.Verdict{Status: "known", Known: id, Features: feats}
				}
				return core.Verdict{Status: "violation", Features: feats, Evals: evals,
					Detail: fmt.Sprintf("query: %s\nwindow: start=%d end=%d step=%d lookback=%d procs=%d\noptimizers=%s changes the result: %s\nplan (none): %s\nplan (%s): %s\nwith optimizers: %s\nwithout:         %s\n",
						c.Query, c.Start, c.End, c.Step, c.Lookback, c.Procs, o, d, basePlan, o, p, r, base)}
			}
		}
		nt := rewrote && base != nil && !base.Empty()
		return core.Verdict{Status: "ok", Nontrivial: nt, Features: feats, Evals: evals}
	})
}
