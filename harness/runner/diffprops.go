package runner

import (
	"context"
	"fmt"
	"strings"

	"github.com/prometheus/prometheus/promql/parser"

	"verifharness/core"
	"verifharness/kf"
	"verifharness/memstore"
	"verifharness/oracle"
)

func shards(procs int) int {
	n := procs / 2
	if n < 1 {
		n = 1
	}
	return n
}

func init() {
	// C02: selector model + differential.
	register("C02", func(c *core.Case) core.Verdict {
		if id := kf.Match(c); id != "" {
			return core.Verdict{Status: "known", Known: id}
		}
		o := Differential(c)
		if o.skipWhy != "" {
			return core.Verdict{Status: "skip", Detail: o.skipWhy, Features: o.feats}
		}
		if o.diff != "" || o.wf != "" {
			if id := kf.MatchAfterFailure(c); id != "" {
				return core.Verdict{Status: "known", Known: id, Features: o.feats}
			}
			return core.Verdict{Status: "violation", Detail: describeDiff(c, o), Features: o.feats}
		}
		vs, isSel := unwrapSel(o.expr).(*parser.VectorSelector)
		if !isSel || o.res == nil {
			return ok(false, o.feats)
		}
		model, info := SelectorModel(c, vs)
		tol := oracle.Tol{}
		if d := modelDiff("reference vs model", model, o.ref, tol); d != "" {
			return core.Verdict{Status: "infra", Detail: "selector model disagrees with the reference engine: " + d + "\nquery: " + c.Query}
		}
		if d := modelDiff("engine vs selector model", model, o.res, tol); d != "" {
			return core.Verdict{Status: "violation", Detail: describeDiff(c, o) + d, Features: o.feats}
		}
		matching := 0
		for _, s := range c.Series {
			if matches(vs, s.Lset()) {
				matching++
			}
		}
		sh := shards(c.Procs)
		nt := info.boundary || (sh >= 2 && matching%sh != 0)
		if info.boundary {
			o.feats = append(o.feats, "boundary-sample")
		}
		if sh >= 2 && matching%sh != 0 {
			o.feats = append(o.feats, "indivisible-shards")
		}
		return ok(nt && !model.Empty(), o.feats)
	})

	// C03: window model + differential + range==instant at sampled steps.
	register("C03", func(c *core.Case) core.Verdict {
		if id := kf.Match(c); id != "" {
			return core.Verdict{Status: "known", Known: id}
		}
		o := Differential(c)
		if o.skipWhy != "" {
			return core.Verdict{Status: "skip", Detail: o.skipWhy, Features: o.feats}
		}
		if o.diff != "" || o.wf != "" {
			if id := kf.MatchAfterFailure(c); id != "" {
				return core.Verdict{Status: "known", Known: id, Features: o.feats}
			}
			return core.Verdict{Status: "violation", Detail: describeDiff(c, o), Features: o.feats}
		}
		call, isCall := unwrapSel(o.expr).(*parser.Call)
		if !isCall || len(call.Args) != 1 || o.res == nil || o.res.Err != nil {
			return ok(false, o.feats)
		}
		ms, isMs := call.Args[0].(*parser.MatrixSelector)
		if !isMs {
			return ok(false, o.feats)
		}
		nt := false
		if model, info, modelled := WindowModel(c, call.Func.Name, ms); modelled {
			tol := TolOf(c)
			if d := modelDiff("reference vs model", model, o.ref, tol); d != "" {
				return core.Verdict{Status: "infra", Detail: "window model disagrees with the reference engine: " + d + "\nquery: " + c.Query}
			}
			if d := modelDiff("engine vs window model", model, o.res, tol); d != "" {
				return core.Verdict{Status: "violation", Detail: describeDiff(c, o) + d, Features: o.feats}
			}
			o.feats = append(o.feats, "window-modelled")
			nt = info.boundary
		} else {
			// boundary information is still useful for the non-triviality rule
			vs := ms.VectorSelector.(*parser.VectorSelector)
			for _, s := range c.Series {
				if !matches(vs, s.Lset()) {
					continue
				}
				for _, ref := range refTimes(c, vs) {
					if _, edge := windowSamples(c, ms, s, ref); edge {
						nt = true
					}
				}
			}
		}
		if nt {
			o.feats = append(o.feats, "edge-sample")
		}
		// independence from earlier steps: the value at a step equals the instant query there
		if !c.Instant() && c.NumSteps() > 1 && !strings.Contains(c.Query, "start()") && !strings.Contains(c.Query, "end()") {
			if d := rangeVsInstantAt(c, o.res, []int{c.NumSteps() - 1, c.NumSteps() / 2}); d != "" {
				return core.Verdict{Status: "violation", Detail: describeDiff(c, o) + d, Features: o.feats}
			}
		}
		return ok(nt && !o.ref.Empty(), o.feats)
	})

	// C04: aggregations.
	register("C04", evalDiff(func(c *core.Case, o diffOutcome) bool {
		if o.ref == nil {
			return false
		}
		if o.ref.Err != nil {
			return true
		}
		// >=2 groups, one of them present at some step and absent at another, or a varying parameter
		vary := strings.Contains(c.Query, "time()") || strings.Contains(c.Query, "scalar(")
		n := c.NumSteps()
		partial := false
		for _, s := range o.ref.Series {
			if len(s.Points) > 0 && len(s.Points) < n {
				partial = true
			}
		}
		return (len(o.ref.Series) >= 2 && partial) || (vary && !o.ref.Empty())
	}))

	// C05: binary operators.
	register("C05", evalDiff(func(c *core.Case, o diffOutcome) bool {
		if o.ref == nil || !hasFeat(o.feats, "binary") {
			return false
		}
		return o.ref.Err != nil || !o.ref.Empty()
	}))

	// C06: instant functions, scalars, unary minus, @.
	register("C06", func(c *core.Case) core.Verdict {
		v := evalDiff(func(c *core.Case, o diffOutcome) bool {
			if o.ref == nil || o.ref.Empty() {
				return false
			}
			vary := strings.Contains(c.Query, "time()") || strings.Contains(c.Query, "scalar(")
			return vary || (c.NumSteps() > 10 && (hasFeat(o.feats, "scalar-typed") || hasFeat(o.feats, "bin:vs") || hasFeat(o.feats, "fn:vector"))) || hasFeat(o.feats, "at") || hasFeat(o.feats, "unary")
		})(c)
		return v
	})
}

// rangeVsInstantAt compares the points of a range result at the given step
// indices with instant queries evaluated there (engine against itself).
func rangeVsInstantAt(c *core.Case, rng *oracle.Res, steps []int) string {
	st := memstore.New(c.Series)
	eng := NewEngine(c.Lookback, c.Opt, false)
	tol := TolOf(c)
	done := map[int]bool{}
	for _, i := range steps {
		if i < 0 || i >= c.NumSteps() || done[i] {
			continue
		}
		done[i] = true
		t := c.Start + int64(i)*c.Step
		inst, err := Run(context.Background(), eng, NewSession(st, c), QueryOpts(c.QLookback), c.Query, t, t, 0)
		if err != nil {
			return fmt.Sprintf("instant query at %d could not be created: %v", t, err)
		}
		if d := compareAt(rng, inst, t, tol); d != "" {
			return fmt.Sprintf("range result at t=%d differs from the instant query at t=%d: %s\ninstant: %s\n", t, t, d, inst)
		}
	}
	return ""
}

// sliceAt extracts the points at timestamp t from a range (matrix) result as an instant-like result.
func sliceAt(rng *oracle.Res, t int64) *oracle.Res {
	out := &oracle.Res{Err: rng.Err, Type: parser.ValueTypeVector}
	for _, s := range rng.Series {
		for _, p := range s.Points {
			if p.T == t {
				out.Series = append(out.Series, oracle.RSeries{Labels: s.Labels, Points: []oracle.Point{p}})
			}
		}
	}
	return out
}

func compareAt(rng, inst *oracle.Res, t int64, tol oracle.Tol) string {
	if rng.Err != nil {
		// A range query fails if any of its steps fails; nothing to compare per step.
		return ""
	}
	if inst.Err != nil {
		// The range query evaluated this very step successfully.
		return fmt.Sprintf("instant query fails (%v) where the range query succeeded", inst.Err)
	}
	a := sliceAt(rng, t)
	b := &oracle.Res{Type: parser.ValueTypeVector}
	switch inst.Type {
	case parser.ValueTypeVector:
		b.Series = inst.Series
	case parser.ValueTypeScalar:
		b.Series = inst.Series
	default:
		return "instant result of type " + string(inst.Type)
	}
	return oracle.Equal(a, b, tol)
}
