package runner

import (
	"context"
	"fmt"
	"sort"
	"strings"

	"verifharness/core"
	"verifharness/kf"
	"verifharness/memstore"
	"verifharness/oracle"
)

func selectSet(recs []memstore.SelectRec) map[string]bool {
	out := map[string]bool{}
	for _, r := range recs {
		out[r.Key(false)] = true
	}
	return out
}

func setDiff(a, b map[string]bool) []string {
	var out []string
	for k := range a {
		if !b[k] {
			out = append(out, k)
		}
	}
	sort.Strings(out)
	return out
}

func init() {
	register("C16", func(c *core.Case) core.Verdict {
		SetProcs(c.Procs)
		_, expr, perr := ExprType(c.Query)
		if perr != nil {
			return core.Verdict{Status: "skip", Detail: "parse error: " + perr.Error()}
		}
		feats := Features(c, expr)
		st := memstore.New(c.Series)
		qo := QueryOpts(c.QLookback)
		ctx := context.Background()
		hdr := caseHdr(c)

		// Oracle A: without plan rewrites the set of selects equals the reference's.
		engSess := st.Session()
		res, cerr := Run(ctx, NewEngine(c.Lookback, "none", false), engSess, qo, c.Query, c.Start, c.End, c.Step)
		if cerr != nil {
			if IsUnsupported(cerr) {
				return core.Verdict{Status: "skip", Detail: "fallback", Features: feats}
			}
			return core.Verdict{Status: "skip", Detail: "rejected: " + cerr.Error(), Features: feats}
		}
		refSess := st.Session()
		_, rerr := Run(ctx, NewRef(c.Lookback), refSess, qo, c.Query, c.Start, c.End, c.Step)
		if rerr != nil {
			return core.Verdict{Status: "skip", Detail: "reference rejects: " + rerr.Error(), Features: feats}
		}
		es, rs := selectSet(engSess.Selects()), selectSet(refSess.Selects())
		// An evaluation error may stop either engine before all selects were issued.
		if res.Err == nil && (len(setDiff(es, rs)) > 0 || len(setDiff(rs, es)) > 0) {
			if id := kf.MatchAfterFailure(c); id != "" {
				return core.Verdict{Status: "known", Known: id, Features: feats}
			}
		}
		if res.Err == nil {
			if only := setDiff(es, rs); len(only) > 0 {
				return core.Verdict{Status: "violation", Features: feats, Detail: fmt.Sprintf("%sselect issued by the engine but not by the reference:\n  %s\nreference selects:\n  %s\n", hdr, strings.Join(only, "\n  "), strings.Join(setDiff(rs, map[string]bool{}), "\n  "))}
			}
			if only := setDiff(rs, es); len(only) > 0 {
				return core.Verdict{Status: "violation", Features: feats, Detail: fmt.Sprintf("%sselect issued by the reference but not by the engine:\n  %s\nengine selects:\n  %s\n", hdr, strings.Join(only, "\n  "), strings.Join(setDiff(es, map[string]bool{}), "\n  "))}
			}
		}

		// Oracle B: the hinted range is sufficient, with any optimizer set.
		tol := TolOf(c)
		for _, opt := range []string{"none", "default", "all"} {
			plain := st.Session()
			plain.Shuffle = c.Shuffle
			full, err1 := Run(ctx, NewEngine(c.Lookback, opt, false), plain, qo, c.Query, c.Start, c.End, c.Step)
			trim := st.Session()
			trim.Shuffle = c.Shuffle
			trim.Trim = true
			cut, err2 := Run(ctx, NewEngine(c.Lookback, opt, false), trim, qo, c.Query, c.Start, c.End, c.Step)
			if err1 != nil || err2 != nil {
				continue
			}
			if d := oracle.Equal(cut, full, tol); d != "" {
				if (hasFeat(feats, "agg:topk") || hasFeat(feats, "agg:bottomk")) && TopkAmbiguous(c, expr, st) {
					continue
				}
				kc := *c
				kc.Prop = "C16"
				if id := kf.MatchAfterFailure(&kc); id != "" {
					return core.Verdict{Status: "known", Known: id, Features: feats}
				}
				return core.Verdict{Status: "violation", Features: feats, Detail: fmt.Sprintf("%soptimizers=%s: result changes when the storage omits samples outside [hints.Start, hints.End]: %s\ntrimmed: %s\nfull:    %s\nselects: %v\n", hdr, opt, d, cut, full, setDiff(selectSet(trim.Selects()), map[string]bool{}))}
			}
		}
		hintKinds := map[string]bool{}
		for _, r := range engSess.Selects() {
			hintKinds[fmt.Sprintf("%d/%d/%d/%s/%v", r.Hints.Start, r.Hints.End, r.Hints.Range, r.Hints.Func, r.Hints.Grouping)] = true
		}
		nt := len(hintKinds) >= 2 || hasFeat(feats, "offset") || hasFeat(feats, "at")
		return core.Verdict{Status: "ok", Nontrivial: nt && len(engSess.Selects()) > 0, Features: feats, Evals: 8}
	})
}
