// Package runner executes cases against the engine under test and the reference
// engine. It is used by the executor child process and by the in-process fuzz
// targets.
package runner

import (
	"context"
	"errors"
	"fmt"
	"math"
	"runtime"
	"strings"
	"time"

	"github.com/prometheus/prometheus/promql"
	"github.com/prometheus/prometheus/promql/parser"
	"github.com/prometheus/prometheus/storage"

	"github.com/thanos-community/promql-engine/engine"
	"github.com/thanos-community/promql-engine/execution/parse"
	"github.com/thanos-community/promql-engine/logicalplan"

	"verifharness/core"
	"verifharness/memstore"
	"verifharness/oracle"
)

var _ = oracle.DefaultTol

func Optimizers(name string) []logicalplan.Optimizer {
	switch name {
	case "", "default":
		return nil // engine default
	case "none":
		return logicalplan.NoOptimizers
	case "all":
		return append([]logicalplan.Optimizer{}, logicalplan.AllOptimizers...)
	case "sort":
		return []logicalplan.Optimizer{logicalplan.SortMatchers{}}
	case "merge":
		return []logicalplan.Optimizer{logicalplan.MergeSelectsOptimizer{}}
	case "sortmerge":
		return []logicalplan.Optimizer{logicalplan.SortMatchers{}, logicalplan.MergeSelectsOptimizer{}}
	case "propagate":
		return []logicalplan.Optimizer{logicalplan.PropagateMatchersOptimizer{}}
	case "sortpropagate":
		return []logicalplan.Optimizer{logicalplan.SortMatchers{}, logicalplan.PropagateMatchersOptimizer{}}
	}
	panic("unknown optimizer set " + name)
}

func promOpts(lookbackMs int64) promql.EngineOpts {
	return promql.EngineOpts{
		Logger:               nil,
		Reg:                  nil,
		MaxSamples:           50000000,
		Timeout:              time.Hour,
		LookbackDelta:        time.Duration(lookbackMs) * time.Millisecond,
		EnableAtModifier:     true,
		EnableNegativeOffset: true,
		NoStepSubqueryIntervalFn: func(int64) int64 {
			return 30000
		},
	}
}

// NewEngine builds the engine under test.
func NewEngine(lookbackMs int64, opt string, fallback bool) promqlEngine {
	return engine.New(EngineOpts(lookbackMs, opt, fallback))
}

func EngineOpts(lookbackMs int64, opt string, fallback bool) engine.Opts {
	return engine.Opts{
		EngineOpts:        promOpts(lookbackMs),
		LogicalOptimizers: Optimizers(opt),
		DisableFallback:   !fallback,
	}
}

// NewRef builds the reference engine.
func NewRef(lookbackMs int64) promqlEngine {
	return promql.NewEngine(promOpts(lookbackMs))
}

type promqlEngine interface {
	NewInstantQuery(q storage.Queryable, opts *promql.QueryOpts, qs string, ts time.Time) (promql.Query, error)
	NewRangeQuery(q storage.Queryable, opts *promql.QueryOpts, qs string, start, end time.Time, interval time.Duration) (promql.Query, error)
}

type Engine = promqlEngine

func QueryOpts(qlookback int64) *promql.QueryOpts {
	switch {
	case qlookback == 0:
		return nil
	case qlookback < 0:
		return &promql.QueryOpts{}
	}
	return &promql.QueryOpts{LookbackDelta: time.Duration(qlookback) * time.Millisecond}
}

func ms(t int64) time.Time { return time.UnixMilli(t) }

// Create creates a query on eng.
func Create(eng Engine, q storage.Queryable, qo *promql.QueryOpts, query string, start, end, step int64) (promql.Query, error) {
	if step == 0 {
		return eng.NewInstantQuery(q, qo, query, ms(start))
	}
	return eng.NewRangeQuery(q, qo, query, ms(start), ms(end), time.Duration(step)*time.Millisecond)
}

// IsUnsupported reports whether err identifies itself as unsupported / not implemented.
func IsUnsupported(err error) bool {
	return errors.Is(err, parse.ErrNotSupportedExpr) || errors.Is(err, parse.ErrNotImplemented)
}

// Exec runs a created query to completion and returns a deep-copied result.
func Exec(ctx context.Context, qry promql.Query) *oracle.Res {
	r := qry.Exec(ctx)
	res := oracle.FromResult(r)
	qry.Close()
	return res
}

// Run creates and executes. createErr is returned separately.
func Run(ctx context.Context, eng Engine, q storage.Queryable, qo *promql.QueryOpts, query string, start, end, step int64) (res *oracle.Res, createErr error) {
	qry, err := Create(eng, q, qo, query, start, end, step)
	if err != nil {
		return nil, err
	}
	return Exec(ctx, qry), nil
}

// SetProcs applies the GOMAXPROCS of a case (the engine reads it at plan time).
func SetProcs(n int) {
	if n > 0 && runtime.GOMAXPROCS(0) != n {
		runtime.GOMAXPROCS(n)
	}
}

// Scale returns the largest finite magnitude in the dataset (tolerance floor).
func Scale(series []core.Series) float64 {
	m := 1.0
	for _, s := range series {
		for _, p := range s.Samples {
			v := math.Abs(float64(p.V))
			if !math.IsNaN(v) && !math.IsInf(v, 0) && v > m {
				m = v
			}
		}
	}
	return m
}

// ExprType parses the query and returns its type.
func ExprType(q string) (parser.ValueType, parser.Expr, error) {
	e, err := parser.ParseExpr(q)
	if err != nil {
		return parser.ValueTypeNone, nil, err
	}
	return e.Type(), e, nil
}

// NewSession creates the store and a session configured from the case.
func NewSession(st *memstore.Store, c *core.Case) *memstore.Session {
	s := st.Session()
	s.Shuffle = c.Shuffle
	s.Trim = c.Trim
	s.Delay = c.Delay
	s.HonourCtx = strings.Contains(c.Note, "honourctx")
	return s
}

func fmtErr(err error) string {
	if err == nil {
		return "<nil>"
	}
	return fmt.Sprintf("%v", err)
}

func parserParse(q string) (parser.Expr, error) { return parser.ParseExpr(q) }

func containsStr(s, sub string) bool { return strings.Contains(s, sub) }

// TolOf returns the value tolerance for a case. Variance-like reductions are
// ill-conditioned when the spread of their input is small against its magnitude,
// and the reference engine itself assembles intermediate range results from a Go
// map (its summation order varies from run to run), so queries that contain them
// are compared with a wider tolerance whose absolute floor is in squared units.
func TolOf(c *core.Case) oracle.Tol {
	scale := Scale(c.Series)
	q := c.Query
	for _, a := range c.Hist {
		q += " " + a.Query
	}
	if strings.Contains(q, "stddev") || strings.Contains(q, "stdvar") || strings.Contains(q, "deriv") {
		return oracle.Tol{Rel: 1e-6, Scale: scale * scale}
	}
	return oracle.DefaultTol(scale)
}
