package runner

import (
	"context"
	"fmt"
	"math"

	"verifharness/core"
	"verifharness/kf"
	"verifharness/memstore"
	"verifharness/oracle"
)

func init() {
	// C19: every successful result is a well-formed value (validity predicate).
	register("C19", func(c *core.Case) core.Verdict {
		SetProcs(c.Procs)
		_, expr, perr := ExprType(c.Query)
		if perr != nil {
			return core.Verdict{Status: "skip", Detail: "parse error: " + perr.Error()}
		}
		feats := Features(c, expr)
		st := memstore.New(c.Series)
		res, cerr := Run(context.Background(), NewEngine(c.Lookback, c.Opt, c.Fallback), NewSession(st, c), QueryOpts(c.QLookback), c.Query, c.Start, c.End, c.Step)
		if cerr != nil {
			return core.Verdict{Status: "skip", Detail: "not created: " + cerr.Error(), Features: feats}
		}
		if wf := oracle.WellFormed(res, expr.Type(), oracle.Window{Start: c.Start, End: c.End, Step: c.Step}); wf != "" {
			if id := kf.MatchAfterFailure(c); id != "" {
				return core.Verdict{Status: "known", Known: id, Features: feats}
			}
			return core.Verdict{Status: "violation", Features: feats, Detail: fmt.Sprintf("%sill-formed result: %s\n%s\n", caseHdr(c), wf, res)}
		}
		extreme := false
		for _, s := range res.Series {
			for _, p := range s.Points {
				if math.IsInf(p.V, 0) || math.IsNaN(p.V) || math.Abs(p.V) > 1e300 || (p.V != 0 && math.Abs(p.V) < 1e-300) {
					extreme = true
				}
			}
		}
		if extreme {
			feats = append(feats, "extreme-values")
		}
		nt := res.Err == nil && !res.Empty() && (len(res.Series) >= 2 || extreme)
		return core.Verdict{Status: "ok", Nontrivial: nt, Features: feats, Evals: 1}
	})
}
