package runner

import (
	"context"
	"errors"
	"fmt"
	"github.com/prometheus/prometheus/storage"
	"github.com/thanos-community/promql-engine/api"
	"github.com/thanos-community/promql-engine/engine"
	"os"
	"runtime"
	"sort"
	"strings"
	"sync/atomic"
	"time"

	"github.com/prometheus/prometheus/promql"

	"verifharness/core"
	"verifharness/memstore"
	"verifharness/oracle"
)

// errorClasses are the storage interactions that can report a failure (C15).
var errorClasses = []string{"querier", "select", "ssnext", "sserr", "seek", "next"}

type faultOutcome struct {
	res      *oracle.Res
	createEr error
	fired    bool
	firedGo  int64
	firedAt  int
	execGo   int64
	opened   int
	closes   []int
	returned bool // Exec returned within the bound
	// inconclusive: Exec was still making storage callbacks when the wait was given up
	// (starved machine); no verdict can be based on this execution
	inconclusive bool
	elapsed      time.Duration
	dump         string
	sess         *memstore.Session
	ctxErr       error
}

func curGoid() int64 {
	var buf [64]byte
	n := runtime.Stack(buf[:], false)
	f := strings.Fields(string(buf[:n]))
	var id int64
	if len(f) >= 2 {
		fmt.Sscanf(f[1], "%d", &id)
	}
	return id
}

func allStacks() string {
	buf := make([]byte, 1<<20)
	n := runtime.Stack(buf, true)
	return string(buf[:n])
}

// engineGoroutines returns the stacks of goroutines that have a frame of the engine.
func engineGoroutines() []string {
	var out []string
	for _, g := range strings.Split(allStacks(), "\n\n") {
		if strings.Contains(g, "thanos-community/promql-engine/") && !strings.Contains(g, "verifharness/runner.engineGoroutines") {
			out = append(out, g)
		}
	}
	return out
}

// execBound: an execution that has not returned after this time AND has not made a storage
// callback for stallBound is reported as hung. An execution that is still making callbacks
// (a starved machine: typical executions take milliseconds) is waited for up to execCap and
// then given up as inconclusive - a time budget is never a violation by itself.
const (
	execBound  = 15 * time.Second
	stallBound = 10 * time.Second
	execCap    = 240 * time.Second
)

// parkedStates are the goroutine states in which a goroutine waits for another goroutine.
var parkedStates = []string{"[chan receive", "[chan send", "[select", "[semacquire", "[sync.Cond.Wait", "[sync.Mutex.Lock", "[sync.RWMutex"}

func isParked(stack string) bool {
	head := stack
	if i := strings.IndexByte(stack, '\n'); i >= 0 {
		head = stack[:i]
	}
	for _, st := range parkedStates {
		if strings.Contains(head, st) {
			return true
		}
	}
	return false
}

func goroutineIDs(stacks []string) string {
	var ids []string
	for _, g := range stacks {
		f := strings.Fields(g)
		if len(f) >= 2 {
			ids = append(ids, f[1])
		}
	}
	sort.Strings(ids)
	return strings.Join(ids, ",")
}

// leakedGoroutines waits for the goroutines of the engine to end. It returns the stacks
// of those that are still there after quick, all parked, and the same ones as two
// seconds before (stuck for good). Goroutines that are runnable, running or sleeping are
// still winding down (slow machine); they are waited for up to a minute and then given up
// without a verdict (slow=true).
func leakedGoroutines(quick time.Duration) (leaked []string, slow bool) {
	if WaitQuiet(quick) {
		return nil, false
	}
	deadline := time.Now().Add(60 * time.Second)
	prev, prevAt := "", time.Now()
	for {
		gs := engineGoroutines()
		if len(gs) == 0 {
			return nil, false
		}
		allParked := true
		for _, g := range gs {
			if !isParked(g) {
				allParked = false
			}
		}
		ids := goroutineIDs(gs)
		if allParked && ids == prev && time.Since(prevAt) >= 2*time.Second {
			return gs, false
		}
		if ids != prev || !allParked {
			prev, prevAt = ids, time.Now()
		}
		if time.Now().After(deadline) {
			return nil, true
		}
		time.Sleep(100 * time.Millisecond)
	}
}

// promCancelErr: a query evaluated by the Prometheus engine (fallback path, also inside a
// remote engine) reports the end of its context as ErrQueryCanceled / ErrQueryTimeout.
func promCancelErr(err error) bool {
	var c promql.ErrQueryCanceled
	var t promql.ErrQueryTimeout
	return errors.As(err, &c) || errors.As(err, &t)
}

// sessionHook, when set by a sweep over a distributed engine, points the storages of the
// remote engines at views of the session of the execution that is about to start.
var sessionHook func(*memstore.Session)

// swapQueryable is a storage.Queryable whose target can be replaced between executions.
type swapQueryable struct{ cur atomic.Value }

func (q *swapQueryable) Querier(ctx context.Context, mint, maxt int64) (storage.Querier, error) {
	return q.cur.Load().(*memstore.Session).Querier(ctx, mint, maxt)
}

// distributedForSweep builds a distributed engine over the partitions of the case; the
// remote engines read through views of the current execution's session, so their storage
// callbacks are counted, faulted and accounted together with the coordinator's.
func distributedForSweep(c *core.Case) (Engine, func(*memstore.Session)) {
	parts := Partition(c)
	swaps := make([]*swapQueryable, len(parts))
	remotes := make([]api.RemoteEngine, len(parts))
	for i := range parts {
		swaps[i] = &swapQueryable{}
		swaps[i].cur.Store(parts[i].Session())
		remotes[i] = engine.NewLocalEngine(EngineOpts(c.Lookback, c.Opt, true), swaps[i])
	}
	eng := engine.NewDistributedEngine(EngineOpts(c.Lookback, c.Opt, true), api.NewStaticEndpoints(remotes))
	return eng, func(s *memstore.Session) {
		for i := range parts {
			swaps[i].cur.Store(s.View(parts[i]))
		}
	}
}

// sweepEqual is the result comparison of the running sweep (tie-aware, see equalOrTie).
var sweepEqual func(a, b *oracle.Res, tol oracle.Tol) string

// runFaulted executes the case's query once with the given faults injected.
// mode: "" plain; "deadline:<us>" uses a context deadline; cancellation faults use
// the session's Cancel hook.
func runFaulted(c *core.Case, eng Engine, st *memstore.Store, faults []core.Fault, deadlineUs int) faultOutcome {
	out := faultOutcome{}
	sess := NewSession(st, c).WithFaults(faults...)
	out.sess = sess
	if sessionHook != nil {
		sessionHook(sess)
	}
	parent := context.Background()
	var ctx context.Context
	var cancel context.CancelFunc
	for _, f := range faults {
		if f.Kind == "blockdl" && deadlineUs == 0 {
			// the callback blocks until the context's deadline passes
			deadlineUs = 10000
		}
	}
	if deadlineUs > 0 {
		ctx, cancel = context.WithTimeout(parent, time.Duration(deadlineUs)*time.Microsecond)
	} else {
		ctx, cancel = context.WithCancel(parent)
	}
	defer cancel()
	var qry promql.Query
	var qryShared atomic.Value // the query, for the goroutine that releases a blocked storage
	sess.Cancel = func() {
		hasQ := false
		for _, f := range faults {
			if f.Kind == "cancelquery" {
				hasQ = true
			}
		}
		if hasQ && qry != nil {
			q := qry
			go q.Cancel()
			return
		}
		cancel()
	}
	// "block" faults wait for the context; cancel shortly after the first block begins.
	finished := make(chan struct{})
	defer close(finished)
	for _, f := range faults {
		if f.Kind == "block" || f.Kind == "blockq" || f.Kind == "blockclose" {
			kind := f.Kind
			go func() {
				for i := 0; i < 20000; i++ {
					if sess.AnyFired() {
						break
					}
					select {
					case <-finished:
						return
					case <-time.After(50 * time.Microsecond):
					}
				}
				select {
				case <-finished:
					return
				case <-time.After(300 * time.Microsecond):
				}
				// the storage is blocked inside Exec; the release comes from the context,
				// or from Cancel() / Close() of the query called on this goroutine
				q, _ := qryShared.Load().(promql.Query)
				switch {
				case kind == "blockq" && q != nil:
					q.Cancel()
				case kind == "blockclose" && q != nil:
					q.Close()
				default:
					cancel()
				}
			}()
			break
		}
	}
	var err error
	qry, err = Create(eng, sess, QueryOpts(c.QLookback), c.Query, c.Start, c.End, c.Step)
	if err != nil {
		out.createEr = err
		out.opened, out.closes = sess.QuerierStats()
		return out
	}
	qryShared.Store(qry)
	done := make(chan *oracle.Res, 1)
	t0 := time.Now()
	go func() {
		defer func() {
			if r := recover(); r != nil {
				done <- &oracle.Res{Err: fmt.Errorf("PANIC-ESCAPED: %v", r)}
			}
		}()
		out.execGo = curGoid()
		r := qry.Exec(ctx)
		done <- oracle.FromResult(r)
	}()
	lastProgress, lastTotal, lastTick := time.Now(), -1, time.Now()
	tick := time.NewTicker(500 * time.Millisecond)
wait:
	for {
		select {
		case r := <-done:
			out.res = r
			out.returned = true
			break wait
		case <-tick.C:
			// the result may have arrived together with the tick (select picks at random)
			select {
			case r := <-done:
				out.res = r
				out.returned = true
				break wait
			default:
			}
			now := time.Now()
			if now.Sub(lastTick) > 2*time.Second {
				// this goroutine itself was not scheduled for seconds: the machine (or the
				// process) stalled, which says nothing about the query
				lastProgress = now
			}
			lastTick = now
			if _, total := sess.Counts(); total != lastTotal {
				lastTotal, lastProgress = total, time.Now()
			}
			el := time.Since(t0)
			if el >= execBound && time.Since(lastProgress) >= stallBound {
				// no storage callback for a long time: the execution is stuck
				out.dump = allStacks()
				break wait
			}
			if el >= execCap {
				out.inconclusive = true
				break wait
			}
		}
	}
	tick.Stop()
	out.elapsed = time.Since(t0)
	out.ctxErr = ctx.Err()
	// Per-querier accounting is taken when Exec returns (C17: "no later than when Exec returns").
	out.opened, out.closes = sess.QuerierStats()
	if out.returned {
		qry.Close()
	}
	for i := range faults {
		f, g, at := sess.Fired(i)
		if f {
			out.fired = true
			out.firedGo = g
			out.firedAt = at
		}
	}
	return out
}

// kList returns the fault positions to enumerate for a query that makes n callbacks.
func kList(n, cap int, seed uint64) []int {
	if n <= cap {
		ks := make([]int, n)
		for i := range ks {
			ks[i] = i
		}
		return ks
	}
	// all of the first cap/2, then a stratified sample of the rest
	var ks []int
	half := cap / 2
	for i := 0; i < half; i++ {
		ks = append(ks, i)
	}
	rest := n - half
	strata := cap - half
	for i := 0; i < strata; i++ {
		lo := half + rest*i/strata
		hi := half + rest*(i+1)/strata
		if hi <= lo {
			hi = lo + 1
		}
		seed = seed*6364136223846793005 + 1442695040888963407
		ks = append(ks, lo+int((seed>>33)%uint64(hi-lo)))
	}
	return ks
}

func sweepCap(c *core.Case) int {
	switch c.Mode {
	case "thorough":
		return 300
	case "race":
		return 40
	}
	return 100
}

func caseHdr(c *core.Case) string {
	return fmt.Sprintf("query: %s\nwindow: start=%d end=%d step=%d (steps=%d) lookback=%d opt=%q procs=%d series=%d\n", c.Query, c.Start, c.End, c.Step, c.NumSteps(), c.Lookback, c.Opt, c.Procs, len(c.Series))
}

func closedOnce(o faultOutcome) string {
	for i, n := range o.closes {
		if n != 1 {
			return fmt.Sprintf("querier #%d of %d was closed %d times when Exec returned", i, o.opened, n)
		}
	}
	return ""
}

func sameStore(before, after []core.Series) string {
	if len(before) != len(after) {
		return fmt.Sprintf("store has %d series, had %d", len(after), len(before))
	}
	for i := range before {
		a, b := before[i], after[i]
		if len(a.Labels) != len(b.Labels) {
			return fmt.Sprintf("series %d: label set changed from %v to %v", i, a.Labels, b.Labels)
		}
		for j := range a.Labels {
			if a.Labels[j] != b.Labels[j] {
				return fmt.Sprintf("series %d: label set changed from %v to %v", i, a.Labels, b.Labels)
			}
		}
		if len(a.Samples) != len(b.Samples) {
			return fmt.Sprintf("series %d: sample count changed", i)
		}
		for j := range a.Samples {
			if a.Samples[j].T != b.Samples[j].T || (float64(a.Samples[j].V) != float64(b.Samples[j].V) && !(a.Samples[j].V != a.Samples[j].V && b.Samples[j].V != b.Samples[j].V)) {
				return fmt.Sprintf("series %d: sample %d changed", i, j)
			}
		}
	}
	return ""
}

// sweep runs the fault-free baseline and then one execution per enumerated fault
// position; judge is called for every execution.
func sweep(c *core.Case, kinds []string, classes []string, judge func(kind string, f []core.Fault, base, o faultOutcome) string) core.Verdict {
	SetProcs(c.Procs)
	_, expr, perr := ExprType(c.Query)
	if perr != nil {
		return core.Verdict{Status: "skip", Detail: "parse error: " + perr.Error()}
	}
	feats := Features(c, expr)
	st := memstore.New(c.Series)
	sweepEqual = func(a, b *oracle.Res, tol oracle.Tol) string { return equalOrTie(c, expr, st, a, b, tol) }
	snap := st.Dump()
	eng := NewEngine(c.Lookback, c.Opt, c.Fallback)
	if strings.Contains(c.Note, "dist") && c.NParts > 0 {
		// the same sweep over a distributed plan: coalesce over remote executions
		var hook func(*memstore.Session)
		eng, hook = distributedForSweep(c)
		sessionHook = hook
		defer func() { sessionHook = nil }()
		feats = append(feats, "distributed")
	}
	base := runFaulted(c, eng, st, nil, 0)
	if base.createEr != nil {
		return core.Verdict{Status: "skip", Detail: "not created: " + base.createEr.Error(), Features: feats}
	}
	if base.inconclusive {
		return core.Verdict{Status: "skip", Detail: "inconclusive: an execution was still making progress after " + execCap.String() + " (starved machine)", Features: append(feats, "inconclusive-slow"), Restart: true}
	}
	if !base.returned {
		return core.Verdict{Status: "violation", Detail: caseHdr(c) + "fault-free execution did not return within " + execBound.String() + "\n" + base.dump}
	}
	if msg := judge("none", nil, base, base); msg != "" {
		return core.Verdict{Status: "violation", Detail: caseHdr(c) + "fault-free run: " + msg, Features: feats}
	}
	counts, total := base.sess.Counts()
	evals := 1
	var slowest time.Duration
	slowestFault := ""
	nonExecGo := 0
	fired := 0
	for _, kind := range kinds {
		if os.Getenv("VERIF_DEBUG_SWEEP") != "" {
			if f, ferr := os.OpenFile("/tmp/sweep-debug.log", os.O_APPEND|os.O_CREATE|os.O_WRONLY, 0o644); ferr == nil {
				fmt.Fprintf(f, "%s begin kind %s evals=%d\n", time.Now().Format("15:04:05.000"), kind, evals)
				f.Close()
			}
		}
		cls := classes
		if cls == nil {
			cls = []string{"any"}
		}
		for _, class := range cls {
			n := total
			if class != "any" {
				n = counts[class]
			}
			kcap := sweepCap(c)/len(cls) + 1
			if kind == "cancelslow" {
				kcap = kcap / 2
			}
			if kind == "blockdl" {
				kcap = kcap / 4 // every position waits for the deadline
			}
			if kind == "blockq" || kind == "blockclose" {
				kcap = kcap / 3
			}
			for _, k := range kList(n, kcap, uint64(c.Hash())) {
				fs := []core.Fault{{Kind: kind, Class: class, K: k}}
				if c.Fault != nil && c.Fault.Kind == "pair" {
					// a second fault of the same kind later on (different shard / selector)
					k2 := k + 1 + c.Fault.K%(n-k+1)
					fs = append(fs, core.Fault{Kind: kind, Class: class, K: k2})
				}
				tr := time.Now()
				o := runFaulted(c, eng, st, fs, 0)
				if d := time.Since(tr); os.Getenv("VERIF_DEBUG_SWEEP") != "" && d > 100*time.Millisecond {
					if f, ferr := os.OpenFile("/tmp/sweep-debug.log", os.O_APPEND|os.O_CREATE|os.O_WRONLY, 0o644); ferr == nil {
						fmt.Fprintf(f, "slow runFaulted %v: total %v exec %v\n", fs, d, o.elapsed)
						f.Close()
					}
				}
				evals++
				if o.inconclusive {
					return core.Verdict{Status: "skip", Detail: "inconclusive: an execution was still making progress after " + execCap.String() + " (starved machine)", Features: append(feats, "inconclusive-slow"), Restart: true}
				}
				if !o.returned {
					return core.Verdict{Status: "violation", Features: feats, Evals: evals,
						Detail: fmt.Sprintf("%sfault %v: Exec did not return within %s; goroutines:\n%s", caseHdr(c), fs, execBound, o.dump)}
				}
				if o.elapsed > slowest {
					slowest = o.elapsed
					slowestFault = fmt.Sprint(fs)
				}
				if os.Getenv("VERIF_DEBUG_SWEEP") != "" && o.elapsed > 20*time.Millisecond {
					if f, ferr := os.OpenFile("/tmp/sweep-debug.log", os.O_APPEND|os.O_CREATE|os.O_WRONLY, 0o644); ferr == nil {
						fmt.Fprintf(f, "slow execution %v: %v fired=%v err=%v\n", fs, o.elapsed, o.fired, o.res.Err)
						f.Close()
					}
				}
				if o.fired {
					fired++
					if o.firedGo != o.execGo {
						nonExecGo++
					}
				}
				tj := time.Now()
				msg := judge(kind, fs, base, o)
				if d := time.Since(tj); os.Getenv("VERIF_DEBUG_SWEEP") != "" && d > 20*time.Millisecond {
					if f, ferr := os.OpenFile("/tmp/sweep-debug.log", os.O_APPEND|os.O_CREATE|os.O_WRONLY, 0o644); ferr == nil {
						fmt.Fprintf(f, "slow judge %v: %v goroutines=%d base=%d\n%s\n", fs, d, runtime.NumGoroutine(), baseGoroutines, strings.Join(engineGoroutines(), "\n--\n"))
						f.Close()
					}
				}
				if msg != "" {
					return core.Verdict{Status: "violation", Features: feats, Evals: evals,
						Detail: fmt.Sprintf("%sfault %v (callback %d of %d, fired=%v on goroutine %d, Exec on %d): %s\nresult: %s\nfault-free: %s\n", caseHdr(c), fs, o.firedAt, total, o.fired, o.firedGo, o.execGo, msg, o.res, base.res)}
				}
			}
		}
	}
	// other queries are unaffected: the same engine answers the fault-free query as before
	after := runFaulted(c, eng, st, nil, 0)
	evals++
	if after.inconclusive {
		return core.Verdict{Status: "skip", Detail: "inconclusive: an execution was still making progress after " + execCap.String() + " (starved machine)", Features: append(feats, "inconclusive-slow"), Restart: true}
	}
	if !after.returned {
		return core.Verdict{Status: "violation", Detail: caseHdr(c) + "a fault-free execution after the faulted ones did not return\n" + after.dump, Features: feats}
	}
	if d := equalOrTie(c, expr, st, after.res, base.res, TolOf(c)); d != "" {
		return core.Verdict{Status: "violation", Detail: caseHdr(c) + "after the faulted executions the same engine answers the fault-free query differently: " + d, Features: feats}
	}
	if d := sameStore(snap, st.Dump()); d != "" {
		return core.Verdict{Status: "violation", Detail: caseHdr(c) + "storage-owned data was modified: " + d, Features: feats}
	}
	if nonExecGo > 0 {
		feats = append(feats, "fault-off-exec-goroutine")
	}
	feats = append(feats, fmt.Sprintf("callbacks:%s", bucket(total)))
	if slowest > 500*time.Millisecond {
		feats = append(feats, "slowest-exec>500ms")
	}
	_ = slowestFault
	return core.Verdict{Status: "ok", Nontrivial: nonExecGo > 0 || (fired > 0 && len(classes) > 0 && classes[0] != "any"), Features: feats, Evals: evals}
}

func bucket(n int) string {
	switch {
	case n < 10:
		return "<10"
	case n < 100:
		return "10-99"
	case n < 1000:
		return "100-999"
	}
	return ">=1000"
}

func init() {
	tolOf := func(c *core.Case) oracle.Tol { return TolOf(c) }

	// C13 (fault half): a runtime panic at the k-th storage callback, for every k.
	register("C13", func(c *core.Case) core.Verdict {
		if c.Mode == "extreme" {
			// extreme parameters / degenerate data: outcome equals the reference's; a crash is reported by the parent
			return evalDiff(func(c *core.Case, o diffOutcome) bool { return o.ref != nil })(c)
		}
		tol := tolOf(c)
		eng2 := NewEngine(c.Lookback, c.Opt, false)
		_ = eng2
		// the panic value is a runtime.Error, a string or a plain error (one kind per case)
		pk := "panic"
		switch {
		case strings.Contains(c.Note, "panic=str"):
			pk = "panicstr"
		case strings.Contains(c.Note, "panic=err"):
			pk = "panicerr"
		}
		return sweep(c, []string{pk}, []string{"any", "labels", "iterator", "seek"}, func(kind string, f []core.Fault, base, o faultOutcome) string {
			if o.res != nil && o.res.Err != nil && strings.HasPrefix(o.res.Err.Error(), "PANIC-ESCAPED") {
				return "panic escaped from Exec: " + o.res.Err.Error()
			}
			if kind == "none" {
				return ""
			}
			if o.fired {
				if o.res.Err == nil {
					return "a panic was raised inside a storage callback but the query reports success"
				}
				return ""
			}
			if d := sweepEqual(o.res, base.res, tol); d != "" {
				return "fault did not fire, yet the result differs from the fault-free result: " + d
			}
			return ""
		})
	})

	// C15: storage failures surface as errors wrapping the storage's error.
	register("C15", func(c *core.Case) core.Verdict {
		tol := tolOf(c)
		return sweep(c, []string{"error"}, errorClasses, func(kind string, f []core.Fault, base, o faultOutcome) string {
			if kind == "none" {
				return ""
			}
			if o.fired {
				if o.res.Err == nil {
					return "the storage reported a failure but the query returned a successful result"
				}
				if base.res.Err != nil {
					// the evaluation fails on its own as well; which of the two errors wins is not specified
					return ""
				}
				if !errors.Is(o.res.Err, memstore.ErrInjected) {
					return fmt.Sprintf("the query error does not wrap the storage's error: %v", o.res.Err)
				}
				return ""
			}
			if d := sweepEqual(o.res, base.res, tol); d != "" {
				return "fault did not fire, yet the result differs from the fault-free result: " + d
			}
			return ""
		})
	})

	// C17: queriers closed exactly once on every path; storage-owned data untouched.
	register("C17", func(c *core.Case) core.Verdict {
		// created but never executed: no querier may be opened
		{
			SetProcs(c.Procs)
			st := memstore.New(c.Series)
			sess := NewSession(st, c)
			q, err := Create(NewEngine(c.Lookback, c.Opt, c.Fallback), sess, QueryOpts(c.QLookback), c.Query, c.Start, c.End, c.Step)
			if err == nil {
				opened, _ := sess.QuerierStats()
				q.Close()
				if opened != 0 {
					return violation("%sa query that was created and closed without being executed opened %d querier(s)", caseHdr(c), opened)
				}
			}
		}
		v := sweep(c, []string{"error", "panic", "cancel", "cancelslow"}, nil, func(kind string, f []core.Fault, base, o faultOutcome) string {
			return closedOnce(o)
		})
		return v
	})

	// C14: cancellation is prompt and final; no hangs, no leaks.
	register("C14", func(c *core.Case) core.Verdict {
		tol := tolOf(c)
		kinds := []string{"cancel", "block", "cancelquery", "blockdl", "blockq", "blockclose"}
		v := sweep(c, kinds, nil, func(kind string, f []core.Fault, base, o faultOutcome) string {
			if o.res.Err != nil && strings.HasPrefix(o.res.Err.Error(), "PANIC-ESCAPED") {
				return "panic escaped from Exec: " + o.res.Err.Error()
			}
			// no goroutine of the engine may survive Exec + Close (checked after every execution)
			if gs, _ := leakedGoroutines(3 * time.Second); len(gs) > 0 {
				return fmt.Sprintf("%d goroutine(s) of the engine still parked %s after Exec returned and the query was closed:\n%s", len(gs), "5s", strings.Join(gs, "\n\n"))
			}
			if kind == "none" {
				return ""
			}
			if o.res.Err != nil {
				if base.res.Err != nil {
					// the complete evaluation fails as well; reporting that failure is not a partial result
					return ""
				}
				if o.fired && !(errors.Is(o.res.Err, context.Canceled) || errors.Is(o.res.Err, context.DeadlineExceeded) || strings.Contains(o.res.Err.Error(), "context canceled") || promCancelErr(o.res.Err)) {
					return fmt.Sprintf("after cancellation Exec returned an error that is not the context's error: %v", o.res.Err)
				}
				if !o.fired && !(kind == "blockdl" && (errors.Is(o.res.Err, context.DeadlineExceeded) || promCancelErr(o.res.Err))) {
					return fmt.Sprintf("no cancellation happened, but Exec failed: %v", o.res.Err)
				}
				return ""
			}
			// success: must be the complete result
			if d := sweepEqual(o.res, base.res, tol); d != "" {
				return "Exec returned a successful result that differs from the complete result (partial result after cancellation): " + d
			}
			return ""
		})
		if v.Status != "ok" {
			return v
		}
		// deadline variant: a context deadline in the middle of the evaluation
		if strings.Contains(c.Note, "deadline") {
			st := memstore.New(c.Series)
			eng := NewEngine(c.Lookback, c.Opt, false)
			if strings.Contains(c.Note, "dist") && c.NParts > 0 {
				var hook func(*memstore.Session)
				eng, hook = distributedForSweep(c)
				sessionHook = hook
				defer func() { sessionHook = nil }()
			}
			base := runFaulted(c, eng, st, nil, 0)
			if base.createEr != nil {
				return v
			}
			for _, us := range []int{1, 20, 100, 400, 1500} {
				o := runFaulted(c, eng, st, nil, us)
				if o.createEr != nil {
					break
				}
				if o.inconclusive {
					break
				}
				if !o.returned {
					return violation("%sdeadline %dus: Exec did not return within %s:\n%s", caseHdr(c), us, execBound, o.dump)
				}
				if o.res.Err == nil {
					if d := sweepEqual(o.res, base.res, tol); d != "" {
						return violation("%sdeadline %dus: successful result differs from the complete result: %s", caseHdr(c), us, d)
					}
				} else if base.res.Err == nil && !errors.Is(o.res.Err, context.DeadlineExceeded) && !strings.Contains(o.res.Err.Error(), "deadline exceeded") && !promCancelErr(o.res.Err) {
					return violation("%sdeadline %dus: Exec returned an error that is not the context's: %v", caseHdr(c), us, o.res.Err)
				}
				if gs, _ := leakedGoroutines(3 * time.Second); len(gs) > 0 {
					return violation("%sdeadline %dus: goroutines of the engine still parked 5s after Exec returned:\n%s", caseHdr(c), us, strings.Join(gs, "\n\n"))
				}
			}
			v.Features = append(v.Features, "deadline-variant")
		}
		return v
	})
}
