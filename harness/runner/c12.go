package runner

import (
	"context"
	"fmt"
	"sort"
	"sync"
	"time"

	"verifharness/contract"
	"verifharness/core"
	"verifharness/kf"
	"verifharness/memstore"
	"verifharness/oracle"
)

func init() {
	// C12: concurrent queries on one engine are race-free (race detector in the
	// child, halt_on_error) and isolated (each equals its solo result).
	register("C12", func(c *core.Case) core.Verdict {
		SetProcs(c.Procs)
		st := memstore.New(c.Series)
		var eng Engine
		if c.Mode == "dist" || c.Mode == "dist-timesplit" {
			eng = NewDistributed(c, Partition(c))
		} else {
			eng = NewEngine(c.Lookback, c.Opt, true)
		}
		var qs []core.Action
		for _, a := range c.Hist {
			if a.Op == "query" {
				qs = append(qs, a)
			}
		}
		if len(qs) < 2 {
			return core.Verdict{Status: "skip", Detail: "fewer than two queries"}
		}
		// solo results on fresh engines
		solo := make([]*oracle.Res, len(qs))
		soloErr := make([]error, len(qs))
		for i, a := range qs {
			var fresh Engine
			if c.Mode == "dist" || c.Mode == "dist-timesplit" {
				fresh = NewDistributed(c, Partition(c))
			} else {
				fresh = NewEngine(c.Lookback, c.Opt, true)
			}
			s := st.Session()
			s.Shuffle = c.Shuffle
			solo[i], soloErr[i] = Run(context.Background(), fresh, s, QueryOpts(a.QLookback), a.Query, a.Start, a.End, a.Step)
		}
		type span struct{ a, b time.Time }
		res := make([]*oracle.Res, len(qs))
		errs := make([]error, len(qs))
		spans := make([]span, len(qs))
		// two waves on the same engine: whatever the first wave leaves behind
		// (pools, caches) is there when the second wave runs concurrently
		waves := [][2]int{{0, len(qs)}}
		if len(qs) >= 4 && c.Delay%2 == 0 {
			waves = [][2]int{{0, len(qs) / 2}, {len(qs) / 2, len(qs)}}
		}
		if c.Delay%3 != 0 {
			contract.InstallPerturbation(c.Delay)
			defer contract.Uninstall()
		}
		// every other case: all concurrent queries are given the very same queryable
		var sharedQ *memstore.Session
		if c.Delay%4 >= 2 {
			sharedQ = st.Session()
			sharedQ.Shuffle = c.Shuffle
			sharedQ.Delay = c.Delay
		}
		for _, w := range waves {
			var wg sync.WaitGroup
			start := make(chan struct{})
			for i := w[0]; i < w[1]; i++ {
				a := qs[i]
				wg.Add(1)
				go func(i int, a core.Action) {
					defer wg.Done()
					s := st.Session()
					s.Shuffle = c.Shuffle
					s.Delay = c.Delay + uint64(i)*7919
					if sharedQ != nil {
						s = sharedQ
					}
					<-start
					spans[i].a = time.Now()
					res[i], errs[i] = Run(context.Background(), eng, s, QueryOpts(a.QLookback), a.Query, a.Start, a.End, a.Step)
					spans[i].b = time.Now()
				}(i, a)
			}
			close(start)
			wg.Wait()
		}
		tol := TolOf(c)
		shapes := map[string]bool{}
		for i, a := range qs {
			shapes[a.Query] = true
			if (errs[i] != nil) != (soloErr[i] != nil) {
				return violation("query %q: creation differs when run concurrently: %v vs solo %v", a.Query, errs[i], soloErr[i])
			}
			if errs[i] != nil {
				continue
			}
			if d := oracle.Equal(res[i], solo[i], tol); d != "" {
				_, expr, _ := ExprType(a.Query)
				// the tie analysis looks at the data the engines see: in the time-split mode the
				// partitions hold less than the case's series (pause after the cut)
				seen, seenStore := c.Series, st
				if c.Mode == "dist-timesplit" {
					seen = mergedPartitions(Partition(c))
					seenStore = memstore.New(seen)
				}
				kc := &core.Case{Query: a.Query, Series: seen, Start: a.Start, End: a.End, Step: a.Step, Lookback: c.Lookback, QLookback: a.QLookback, Shuffle: c.Shuffle}
				if expr != nil && TopkAmbiguous(kc, expr, seenStore) {
					continue
				}
				if id := knownDifferential(c, a.Query, seen, a.Start, a.End, a.Step); id != "" {
					continue
				}
				if c.Mode == "dist" || c.Mode == "dist-timesplit" {
					// the findings of the distributed scope (a query that is not even defined over the
					// union of the partitions has no single distributed answer either)
					kc10 := *kc
					kc10.Prop = "C10"
					if id := kf.MatchAfterFailure(&kc10); id != "" {
						continue
					}
				}
				return violation("K=%d concurrent queries (mode %q, procs %d): query #%d %q [%d..%d step %d] differs from its solo result: %s\nconcurrent: %s\nsolo:       %s\n", len(qs), c.Mode, c.Procs, i, a.Query, a.Start, a.End, a.Step, d, res[i], solo[i])
			}
		}
		// max overlap of execution spans
		maxOverlap := 0
		for i := range spans {
			n := 0
			for j := range spans {
				if !spans[j].a.After(spans[i].a) && spans[j].b.After(spans[i].a) {
					n++
				}
			}
			if n > maxOverlap {
				maxOverlap = n
			}
		}
		feats := []string{fmt.Sprintf("K:%s", bucket(len(qs))), "mode:" + c.Mode}
		if maxOverlap >= 2 {
			feats = append(feats, "overlap>=2")
		}
		nt := len(qs) >= 4 && len(shapes) >= 2 && maxOverlap >= 2
		return core.Verdict{Status: "ok", Nontrivial: nt, Features: feats, Evals: 2 * len(qs)}
	})
}

// mergedPartitions returns the series the remote engines hold together: series with the
// same label set on several engines (time-split mode) become one series.
func mergedPartitions(parts []*memstore.Store) []core.Series {
	byKey := map[string]int{}
	var out []core.Series
	for _, p := range parts {
		for _, s := range p.Dump() {
			k := s.Lset().String()
			i, ok := byKey[k]
			if !ok {
				byKey[k] = len(out)
				out = append(out, core.Series{Labels: s.Labels, Samples: append([]core.Sample(nil), s.Samples...)})
				continue
			}
			out[i].Samples = append(out[i].Samples, s.Samples...)
		}
	}
	for i := range out {
		smp := out[i].Samples
		sort.SliceStable(smp, func(a, b int) bool { return smp[a].T < smp[b].T })
	}
	return out
}
