package runner

import (
	"context"
	"time"

	"github.com/prometheus/prometheus/promql"
	"strings"

	"github.com/prometheus/prometheus/model/labels"
	"github.com/prometheus/prometheus/promql/parser"

	"verifharness/core"
	"verifharness/kf"
	"verifharness/memstore"
	"verifharness/oracle"
)

func init() {
	// KF-binmatch: the vector-vector operator joins series once at plan time and
	// detects ambiguous matches only between samples that met a partner, so at a step
	// where the "one" side has two samples of one match group, or a one-to-one match
	// has two "many"-side samples of one match group, it diverges from the reference
	// (which fails the query, or not, depending on filtering). The trigger evaluates
	// both operands of every vector-vector operator with the reference engine and
	// fires iff such a step exists in the data.
	kf.Register("binary-ambiguous-match", func(c *core.Case, expr parser.Expr) bool {
		if expr == nil || c.Query == "" {
			return false
		}
		return AmbiguousMatch(c, expr, memstore.New(c.Series))
	})
}

// AmbiguousMatch reports whether some vector-vector binary operator of the query
// meets an ambiguous match group at some step.
func AmbiguousMatch(c *core.Case, expr parser.Expr, st *memstore.Store) bool {
	amb := false
	parser.Inspect(expr, func(n parser.Node, _ []parser.Node) error {
		if amb {
			return nil
		}
		b, ok := n.(*parser.BinaryExpr)
		if !ok || b.VectorMatching == nil || b.Op.IsSetOperator() {
			return nil
		}
		if b.LHS.Type() != parser.ValueTypeVector || b.RHS.Type() != parser.ValueTypeVector {
			return nil
		}
		if binNodeAmbiguous(c, b, st) {
			amb = true
		}
		return nil
	})
	return amb
}

func matchSig(ls labels.Labels, m *parser.VectorMatching) string {
	lb := labels.NewBuilder(ls)
	if m.On {
		lb.Keep(m.MatchingLabels...)
	} else {
		lb.Del(m.MatchingLabels...)
		lb.Del(labels.MetricName)
	}
	return lb.Labels(nil).String()
}

func binNodeAmbiguous(c *core.Case, b *parser.BinaryExpr, st *memstore.Store) bool {
	ref := NewRef(c.Lookback)
	qo := QueryOpts(c.QLookback)
	ctx := context.Background()
	eval := func(e parser.Expr) *oracle.Res {
		s := st.Session()
		s.Shuffle = c.Shuffle
		r, err := Run(ctx, ref, s, qo, e.String(), c.Start, c.End, c.Step)
		if err != nil || r.Err != nil {
			return nil
		}
		return r
	}
	l, r := eval(b.LHS), eval(b.RHS)
	if l == nil || r == nil {
		return false
	}
	one, many := r, l
	if b.VectorMatching.Card == parser.CardOneToMany {
		one, many = l, r
	}
	dup := func(res *oracle.Res, sigOf func(labels.Labels) string) bool {
		type key struct {
			t   int64
			sig string
		}
		seen := map[key]bool{}
		for _, s := range res.Series {
			sig := sigOf(s.Labels)
			for _, p := range s.Points {
				k := key{p.T, sig}
				if seen[k] {
					return true
				}
				seen[k] = true
			}
		}
		return false
	}
	bySig := func(ls labels.Labels) string { return matchSig(ls, b.VectorMatching) }
	if dup(one, bySig) {
		return true
	}
	if b.VectorMatching.Card == parser.CardOneToOne {
		return dup(many, bySig)
	}
	// many-to-one: two many-side samples whose result label sets coincide
	// (they differ only in the metric name, which the result drops).
	return dup(many, func(ls labels.Labels) string {
		return labels.NewBuilder(ls).Del(labels.MetricName).Labels(nil).String()
	})
}

func init() {
	// KF-samelabelset: operators that drop the metric name never check that the
	// resulting vector has unique label sets; the reference fails such a query with
	// "vector cannot contain metrics with the same labelset". The trigger is exactly
	// that: the reference engine fails the input with this error. It needs a reference
	// evaluation, so it is only consulted after a comparison failed (lazy trigger).
	kf.RegisterLazy("ref-same-labelset-error", func(c *core.Case, expr parser.Expr) bool {
		if expr == nil || c.Query == "" {
			return false
		}
		st := memstore.New(c.Series)
		s := st.Session()
		s.Shuffle = c.Shuffle
		r, err := Run(context.Background(), NewRef(c.Lookback), s, QueryOpts(c.QLookback), c.Query, c.Start, c.End, c.Step)
		if err != nil || r.Err == nil {
			return false
		}
		return strings.Contains(r.Err.Error(), "vector cannot contain metrics with the same labelset")
	})
}

func init() {
	// KF-hints-invariant: Prometheus' PreprocessExpr decides step invariance of an
	// aggregation from its operand alone; when the operand is step invariant but the
	// parameter selects series (topk(scalar(count(m)), vector(1))) the engine plans the
	// whole aggregation at the start time and hints [start-lookback, start] for the
	// parameter's selector, while the reference hints the whole query range.
	kf.Register("agg-param-selects-under-step-invariant", func(c *core.Case, expr parser.Expr) bool {
		if expr == nil {
			return false
		}
		e2, err := parser.ParseExpr(c.Query)
		if err != nil {
			return false
		}
		pre := promql.PreprocessExpr(e2, time.UnixMilli(c.Start), time.UnixMilli(c.End))
		hit := false
		parser.Inspect(pre, func(n parser.Node, _ []parser.Node) error {
			si, ok := n.(*parser.StepInvariantExpr)
			if !ok {
				return nil
			}
			parser.Inspect(si.Expr, func(m parser.Node, _ []parser.Node) error {
				agg, ok := m.(*parser.AggregateExpr)
				if !ok || agg.Param == nil {
					return nil
				}
				parser.Inspect(agg.Param, func(x parser.Node, _ []parser.Node) error {
					if vs, ok := x.(*parser.VectorSelector); ok && vs.Timestamp == nil {
						hit = true
					}
					// time() makes the parameter vary per step as well
					if call, ok := x.(*parser.Call); ok && call.Func.Name == "time" {
						hit = true
					}
					return nil
				})
				return nil
			})
			return nil
		})
		return hit
	})
}

func init() {
	// KF-dist-samelabelset: a distributed query evaluates name-dropping functions (and
	// aggregations over them) per partition; series that differ only in the metric name
	// and live on different remote engines never meet, so the distributed engine returns
	// a value where a single engine over the union fails with the same-labelset error.
	// Lazy trigger: the reference engine over the union fails the query with that error.
	kf.RegisterLazy("union-same-labelset-error", func(c *core.Case, expr parser.Expr) bool {
		if expr == nil || c.Query == "" {
			return false
		}
		st := memstore.New(c.Series)
		s := st.Session()
		s.Shuffle = c.Shuffle
		r, err := Run(context.Background(), NewRef(c.Lookback), s, QueryOpts(c.QLookback), c.Query, c.Start, c.End, c.Step)
		if err != nil || r.Err == nil {
			return false
		}
		return strings.Contains(r.Err.Error(), "vector cannot contain metrics with the same labelset")
	})
}
