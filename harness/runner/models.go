package runner

import (
	"fmt"
	"math"
	"sort"

	"github.com/prometheus/prometheus/model/labels"
	"github.com/prometheus/prometheus/promql/parser"

	"verifharness/core"
	"verifharness/oracle"
)

// unwrapSel strips parentheses and unary plus.
func unwrapSel(e parser.Expr) parser.Expr {
	for {
		switch x := e.(type) {
		case *parser.ParenExpr:
			e = x.Expr
		case *parser.UnaryExpr:
			if x.Op == parser.ADD {
				e = x.Expr
				continue
			}
			return e
		default:
			return e
		}
	}
}

func effLookback(c *core.Case) int64 {
	if c.QLookback > 0 {
		return c.QLookback
	}
	if c.Lookback > 0 {
		return c.Lookback
	}
	return 300000
}

// refTimes returns, for every step, the reference time of a selector (after @ and offset).
func refTimes(c *core.Case, vs *parser.VectorSelector) []int64 {
	n := c.NumSteps()
	out := make([]int64, n)
	for i := 0; i < n; i++ {
		t := c.Start + int64(i)*c.Step
		switch {
		case vs.Timestamp != nil:
			t = *vs.Timestamp
		case vs.StartOrEnd == parser.START:
			t = c.Start
		case vs.StartOrEnd == parser.END:
			t = c.End
		}
		out[i] = t - vs.OriginalOffset.Milliseconds()
	}
	return out
}

func matches(vs *parser.VectorSelector, ls labels.Labels) bool {
	for _, m := range vs.LabelMatchers {
		if !m.Matches(ls.Get(m.Name)) {
			return false
		}
	}
	return true
}

type modelInfo struct {
	boundary bool // some deciding sample within +-1ms of the boundary or a staleness marker
}

// SelectorModel is the executable statement of C02.
func SelectorModel(c *core.Case, vs *parser.VectorSelector) (*oracle.Res, modelInfo) {
	lb := effLookback(c)
	res := &oracle.Res{Type: parser.ValueTypeMatrix}
	if c.Instant() {
		res.Type = parser.ValueTypeVector
	}
	info := modelInfo{}
	refs := refTimes(c, vs)
	for _, s := range c.Series {
		ls := s.Lset()
		if !matches(vs, ls) {
			continue
		}
		rs := oracle.RSeries{Labels: ls}
		for i, ref := range refs {
			// latest sample with T <= ref
			j := sort.Search(len(s.Samples), func(k int) bool { return s.Samples[k].T > ref }) - 1
			if j < 0 {
				continue
			}
			smp := s.Samples[j]
			age := ref - smp.T
			if age >= lb-1 && age <= lb+1 {
				info.boundary = true
			}
			if age > lb {
				continue
			}
			if smp.V.IsStale() {
				info.boundary = true
				continue
			}
			rs.Points = append(rs.Points, oracle.Point{T: c.Start + int64(i)*c.Step, V: float64(smp.V)})
		}
		if len(rs.Points) > 0 {
			res.Series = append(res.Series, rs)
		}
	}
	return res, info
}

// WindowSamples returns, per matching series and step, the non-stale samples in
// [ref-range, ref] (both ends inclusive, as in the pinned Prometheus).
func windowSamples(c *core.Case, ms *parser.MatrixSelector, s core.Series, ref int64) ([]core.Sample, bool) {
	lo := ref - ms.Range.Milliseconds()
	a := sort.Search(len(s.Samples), func(k int) bool { return s.Samples[k].T >= lo })
	b := sort.Search(len(s.Samples), func(k int) bool { return s.Samples[k].T > ref })
	edge := false
	var out []core.Sample
	for _, p := range s.Samples[a:b] {
		if p.T == lo || p.T == ref {
			edge = true
		}
		if p.V.IsStale() {
			edge = true
			continue
		}
		out = append(out, p)
	}
	if a > 0 && s.Samples[a-1].T == lo-1 {
		edge = true
	}
	if b < len(s.Samples) && s.Samples[b].T == ref+1 {
		edge = true
	}
	return out, edge
}

// WindowModel computes the expected result for range functions whose value
// identifies the window content. ok=false if fn is not modelled or the window
// contains values the simple model does not cover (NaN for min/max).
func WindowModel(c *core.Case, fn string, ms *parser.MatrixSelector) (*oracle.Res, modelInfo, bool) {
	vs := ms.VectorSelector.(*parser.VectorSelector)
	res := &oracle.Res{Type: parser.ValueTypeMatrix}
	if c.Instant() {
		res.Type = parser.ValueTypeVector
	}
	info := modelInfo{}
	refs := refTimes(c, vs)
	for _, s := range c.Series {
		ls := s.Lset()
		if !matches(vs, ls) {
			continue
		}
		out := ls
		if fn != "last_over_time" {
			out = labels.NewBuilder(ls).Del(labels.MetricName).Labels(nil)
		}
		rs := oracle.RSeries{Labels: out}
		for i, ref := range refs {
			win, edge := windowSamples(c, ms, s, ref)
			if edge {
				info.boundary = true
			}
			if len(win) == 0 {
				continue
			}
			var v float64
			switch fn {
			case "count_over_time":
				v = float64(len(win))
			case "present_over_time":
				v = 1
			case "last_over_time":
				v = float64(win[len(win)-1].V)
			case "sum_over_time":
				for _, p := range win {
					v += float64(p.V)
				}
			case "min_over_time", "max_over_time":
				v = float64(win[0].V)
				for _, p := range win {
					x := float64(p.V)
					if math.IsNaN(x) || math.IsNaN(v) {
						return nil, info, false
					}
					if fn == "min_over_time" && x < v || fn == "max_over_time" && x > v {
						v = x
					}
				}
			case "changes":
				prev := float64(win[0].V)
				for _, p := range win[1:] {
					x := float64(p.V)
					if x != prev && !(math.IsNaN(x) && math.IsNaN(prev)) {
						v++
					}
					prev = x
				}
			case "resets":
				prev := float64(win[0].V)
				for _, p := range win[1:] {
					x := float64(p.V)
					if x < prev {
						v++
					}
					prev = x
				}
			default:
				return nil, info, false
			}
			rs.Points = append(rs.Points, oracle.Point{T: c.Start + int64(i)*c.Step, V: v})
		}
		if len(rs.Points) > 0 {
			res.Series = append(res.Series, rs)
		}
	}
	// Series that collapse to the same label set after dropping the name are
	// outside the model (the reference reports an error there).
	seen := map[string]bool{}
	for _, s := range res.Series {
		k := s.Labels.String()
		if seen[k] {
			return nil, info, false
		}
		seen[k] = true
	}
	return res, info, true
}

func modelDiff(what string, model, got *oracle.Res, tol oracle.Tol) string {
	if got.Err != nil {
		return fmt.Sprintf("%s: error %v where the model expects a value", what, got.Err)
	}
	if d := oracle.Equal(got, model, tol); d != "" {
		return what + ": " + d
	}
	return ""
}
