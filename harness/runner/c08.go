package runner

import (
	"context"
	"fmt"

	"github.com/prometheus/client_golang/prometheus"
	dto "github.com/prometheus/client_model/go"
	"github.com/prometheus/prometheus/promql"

	"github.com/thanos-community/promql-engine/engine"

	"verifharness/core"
	"verifharness/kf"
	"verifharness/memstore"
	"verifharness/oracle"
)

// pathOf tells which engine evaluates a created query. A query of the Prometheus engine
// (handed out as it is, or wrapped) exposes its parsed statement; the engine's own queries
// have none. (Independent of type names, which a refactoring may change.)
func pathOf(q promql.Query) string {
	if q.Statement() == nil {
		return "native"
	}
	return "fallback"
}

func counterValues(reg *prometheus.Registry) (map[string]float64, error) {
	mfs, err := reg.Gather()
	if err != nil {
		return nil, err
	}
	out := map[string]float64{}
	for _, mf := range mfs {
		if mf.GetName() != "promql_engine_queries_total" {
			continue
		}
		for _, m := range mf.Metric {
			out[labelValue(m, "fallback")] += m.GetCounter().GetValue()
		}
	}
	return out, nil
}

func labelValue(m *dto.Metric, name string) string {
	for _, l := range m.Label {
		if l.GetName() == name {
			return l.GetValue()
		}
	}
	return ""
}

func counterLaw(reg *prometheus.Registry, path string) string {
	vals, err := counterValues(reg)
	if err != nil {
		return "cannot gather: " + err.Error()
	}
	wantTrue, wantFalse := 0.0, 1.0
	if path == "fallback" {
		wantTrue, wantFalse = 1.0, 0.0
	}
	if vals["true"] != wantTrue || vals["false"] != wantFalse {
		return fmt.Sprintf("promql_engine_queries_total after one created %s query: fallback=true %v, fallback=false %v", path, vals["true"], vals["false"])
	}
	return ""
}

func init() {
	register("C08", func(c *core.Case) core.Verdict {
		SetProcs(c.Procs)
		st := memstore.New(c.Series)
		ctx := context.Background()
		qo := QueryOpts(c.QLookback)
		_, expr, perr := ExprType(c.Query)
		if perr != nil {
			return core.Verdict{Status: "skip", Detail: "parse error: " + perr.Error()}
		}
		feats := Features(c, expr)
		hdr := fmt.Sprintf("query: %s\nconstruct=%s position=%s window: start=%d end=%d step=%d\n", c.Query, c.Note, c.Mode, c.Start, c.End, c.Step)
		tol := TolOf(c)

		refSess := st.Session()
		refSess.Shuffle = c.Shuffle // same storage order as the engine under test (ties in topk depend on it)
		refQ, rerr := Create(NewRef(c.Lookback), refSess, qo, c.Query, c.Start, c.End, c.Step)
		var refRes *oracle.Res
		if rerr == nil {
			refRes = Exec(ctx, refQ)
		}
		evals := 1

		// (a) fallback enabled
		regOn := prometheus.NewRegistry()
		optsOn := EngineOpts(c.Lookback, c.Opt, true)
		optsOn.Reg = regOn
		engOn := engine.New(optsOn)
		qOn, errOn := Create(engOn, NewSession(st, c), qo, c.Query, c.Start, c.End, c.Step)
		if (errOn != nil) != (rerr != nil) {
			return violation("%swith fallback enabled the query is %s, the reference engine %s it (engine: %v, reference: %v)", hdr, acc(errOn), acc(rerr)+"s", errOn, rerr)
		}
		if rerr != nil {
			// rejected by both; with fallback disabled it must be rejected as well
			_, errOff := Create(NewEngine(c.Lookback, c.Opt, false), NewSession(st, c), qo, c.Query, c.Start, c.End, c.Step)
			if errOff == nil {
				return violation("%sthe reference rejects the query (%v) but the engine with fallback disabled accepts it", hdr, rerr)
			}
			return core.Verdict{Status: "ok", Features: append(feats, "rejected-by-both"), Evals: evals}
		}
		path := pathOf(qOn)
		feats = append(feats, "path:"+path)
		if d := counterLaw(regOn, path); d != "" {
			return violation("%s%s", hdr, d)
		}
		resOn := Exec(ctx, qOn)
		evals++
		known := ""
		if d := oracle.Equal(resOn, refRes, tol); d != "" {
			if path == "native" {
				kc := *c
				kc.Prop = "C01"
				known = kf.MatchAfterFailure(&kc)
			}
			if known != "" {
				feats = append(feats, "equality-not-judged:"+known)
			} else if !((hasFeat(feats, "agg:topk") || hasFeat(feats, "agg:bottomk")) && TopkAmbiguous(c, expr, st)) {
				return violation("%swith fallback enabled (path %s) the answer differs from the reference: %s\nengine:    %s\nreference: %s\n", hdr, path, d, resOn, refRes)
			}
		}

		// (b) fallback disabled
		regOff := prometheus.NewRegistry()
		optsOff := EngineOpts(c.Lookback, c.Opt, false)
		optsOff.Reg = regOff
		engOff := engine.New(optsOff)
		qOff, errOff := Create(engOff, NewSession(st, c), qo, c.Query, c.Start, c.End, c.Step)
		if path == "fallback" {
			if errOff == nil {
				return violation("%swith fallback enabled the query takes the fallback path, with fallback disabled it is accepted and evaluated natively (path %s)", hdr, pathOf(qOff))
			}
			if !IsUnsupported(errOff) {
				return violation("%swith fallback disabled the rejection does not identify itself as unsupported/not implemented: %v", hdr, errOff)
			}
		} else {
			if errOff != nil {
				return violation("%snative with fallback enabled, but rejected with fallback disabled: %v", hdr, errOff)
			}
			if pathOf(qOff) != "native" {
				return violation("%swith fallback disabled the query is not evaluated natively", hdr)
			}
			if d := counterLaw(regOff, "native"); d != "" {
				return violation("%s(fallback disabled) %s", hdr, d)
			}
			resOff := Exec(ctx, qOff)
			evals++
			if d := oracle.Equal(resOff, resOn, tol); d != "" && known == "" {
				if !((hasFeat(feats, "agg:topk") || hasFeat(feats, "agg:bottomk")) && TopkAmbiguous(c, expr, st)) {
					return violation("%sresult with fallback disabled differs from the result with fallback enabled: %s\noff: %s\non:  %s\n", hdr, d, resOff, resOn)
				}
			}
		}

		// (c) the path is a function of the expression alone: other data, other window
		empty := memstore.New(nil)
		var q2 promql.Query
		var err2 error
		if c.Step == 0 {
			q2, err2 = Create(engOn, empty.Session(), nil, c.Query, c.Start+777000, c.Start+777000, 0)
		} else {
			q2, err2 = Create(engOn, empty.Session(), nil, c.Query, c.Start+60000, c.Start+60000+7*c.Step*3, c.Step*3)
		}
		if err2 != nil {
			return violation("%sthe same expression is rejected over other data/window: %v", hdr, err2)
		}
		if p2 := pathOf(q2); p2 != path {
			q2.Close()
			return violation("%spath depends on data/window: %s here, %s over an empty store and another window", hdr, path, p2)
		}
		q2.Close()

		nt := path == "fallback" && c.Mode != "top"
		return core.Verdict{Status: "ok", Nontrivial: nt, Features: feats, Evals: evals}
	})
}

func acc(err error) string {
	if err != nil {
		return "rejected"
	}
	return "accepted"
}
