package runner

import (
	"context"
	"fmt"

	"github.com/prometheus/prometheus/promql/parser"

	"verifharness/contract"
	"verifharness/core"
	"verifharness/memstore"
	"verifharness/oracle"
)

func init() {
	// C11: results independent of cores, scheduling, series order, unrelated data, repetition.
	register("C11", func(c *core.Case) core.Verdict {
		_, expr, perr := ExprType(c.Query)
		if perr != nil {
			return core.Verdict{Status: "skip", Detail: "parse error: " + perr.Error()}
		}
		feats := Features(c, expr)
		// keep only extra series that match none of the query's selectors
		var sels []*parser.VectorSelector
		parser.Inspect(expr, func(n parser.Node, _ []parser.Node) error {
			if vs, ok := n.(*parser.VectorSelector); ok {
				sels = append(sels, vs)
			}
			return nil
		})
		var extra []core.Series
		for _, s := range c.Extra {
			hit := false
			for _, vs := range sels {
				if matches(vs, s.Lset()) {
					hit = true
				}
			}
			if !hit {
				extra = append(extra, s)
			}
		}
		plain := memstore.New(c.Series)
		withExtra := memstore.New(append(append([]core.Series{}, c.Series...), extra...))
		qo := QueryOpts(c.QLookback)
		ctx := context.Background()
		tol := TolOf(c)
		type variant struct {
			name    string
			procs   int
			shuffle uint64
			delay   uint64
			st      *memstore.Store
		}
		vs := []variant{{"base", c.Procs, c.Shuffle, 0, plain}}
		for i, p := range c.Procs2 {
			vs = append(vs, variant{fmt.Sprintf("procs=%d,perm,delay", p), p, c.Shuffle*31 + uint64(i) + 1, c.Delay + uint64(i), plain})
		}
		vs = append(vs, variant{"unrelated-series", c.Procs, c.Shuffle, 0, withExtra})
		vs = append(vs, variant{"repeat", c.Procs, c.Shuffle, 0, plain})
		if len(c.Procs2) > 0 {
			vs = append(vs, variant{"procs+unrelated+delay", c.Procs2[0], c.Shuffle + 7, c.Delay + 99, withExtra})
		}
		var base *oracle.Res
		evals := 0
		shardSet := map[int]bool{}
		for i, v := range vs {
			SetProcs(v.procs)
			shardSet[shards(v.procs)] = true
			sess := v.st.Session()
			sess.Shuffle = v.shuffle
			sess.Delay = v.delay
			if v.delay != 0 {
				// also perturb the schedule at operator boundaries (verif hook)
				contract.InstallPerturbation(v.delay)
			}
			r, err := Run(ctx, NewEngine(c.Lookback, c.Opt, false), sess, qo, c.Query, c.Start, c.End, c.Step)
			contract.Uninstall()
			evals++
			if err != nil {
				if i == 0 {
					return core.Verdict{Status: "skip", Detail: "not native: " + err.Error(), Features: feats}
				}
				return violation("query: %s\nvariant %s: creation fails (%v) although the base variant was created", c.Query, v.name, err)
			}
			if i == 0 {
				base = r
				continue
			}
			if d := oracle.Equal(r, base, tol); d != "" {
				if (hasFeat(feats, "agg:topk") || hasFeat(feats, "agg:bottomk")) && TopkAmbiguous(c, expr, plain) {
					feats = append(feats, "topk-tie-not-judged")
					continue
				}
				if id := knownDifferential(c, c.Query, c.Series, c.Start, c.End, c.Step); id != "" {
					return core.Verdict{Status: "known", Known: id, Features: feats}
				}
				return core.Verdict{Status: "violation", Features: feats, Evals: evals,
					Detail: fmt.Sprintf("query: %s\nwindow: start=%d end=%d step=%d (steps=%d) lookback=%d opt=%q series=%d\nvariant %q differs from base (procs=%d): %s\nvariant: %s\nbase:    %s\n",
						c.Query, c.Start, c.End, c.Step, c.NumSteps(), c.Lookback, c.Opt, len(c.Series), v.name, c.Procs, d, r, base)}
			}
		}
		matching := 0
		for _, s := range c.Series {
			for _, sel := range sels {
				if matches(sel, s.Lset()) {
					matching++
					break
				}
			}
		}
		indivisible := false
		for sh := range shardSet {
			if sh >= 2 && matching%sh != 0 {
				indivisible = true
			}
		}
		if indivisible {
			feats = append(feats, "indivisible-shards")
		}
		if len(extra) > 0 {
			feats = append(feats, "unrelated-series")
		}
		nt := len(shardSet) >= 2 && indivisible && c.Shuffle != 0 && !base.Empty()
		return core.Verdict{Status: "ok", Nontrivial: nt, Features: feats, Evals: evals}
	})
}
