package runner

import (
	"context"
	"math"
	"sort"
	"time"

	"github.com/prometheus/prometheus/model/labels"
	"github.com/prometheus/prometheus/promql/parser"

	"verifharness/core"
	"verifharness/memstore"
	"verifharness/oracle"
)

// TopkAmbiguous reports whether some topk/bottomk node of the query meets, at some
// step, a group whose k-th and (k+1)-th best values are equal (or both NaN). In that
// situation the reference engine's choice depends on the order in which samples
// reach the aggregation, so there is no single expected answer (DESIGN.md C04).
// The operand and the parameter of every such node are evaluated with the
// reference engine over the same window.
func TopkAmbiguous(c *core.Case, expr parser.Expr, st *memstore.Store) bool {
	amb := false
	parser.Inspect(expr, func(n parser.Node, _ []parser.Node) error {
		if amb {
			return nil
		}
		e, ok := n.(*parser.AggregateExpr)
		if !ok || (e.Op != parser.TOPK && e.Op != parser.BOTTOMK) {
			return nil
		}
		if topkNodeAmbiguous(c, e, st) {
			amb = true
		}
		return nil
	})
	return amb
}

func topkNodeAmbiguous(c *core.Case, e *parser.AggregateExpr, st *memstore.Store) bool {
	ref := NewRef(c.Lookback)
	qo := QueryOpts(c.QLookback)
	ctx := context.Background()
	sess := func() *memstore.Session {
		s := st.Session()
		s.Shuffle = c.Shuffle
		return s
	}
	op, err := Run(ctx, ref, sess(), qo, e.Expr.String(), c.Start, c.End, c.Step)
	if err != nil || op.Err != nil {
		return false
	}
	par, err := Run(ctx, ref, sess(), qo, paramInSitu(c, e.Param), c.Start, c.End, c.Step)
	if err != nil || par.Err != nil {
		return false
	}
	kAt := map[int64]float64{}
	for _, s := range par.Series {
		for _, p := range s.Points {
			kAt[p.T] = p.V
		}
	}
	type key struct {
		t int64
		g string
	}
	groups := map[key][]float64{}
	for _, s := range op.Series {
		g := groupKey(s, e)
		for _, p := range s.Points {
			k := key{p.T, g}
			groups[k] = append(groups[k], p.V)
		}
	}
	for k, vals := range groups {
		kf, ok := kAt[k.t]
		if !ok || !(kf <= math.MaxInt64 && kf >= math.MinInt64) {
			continue
		}
		kk := int64(kf)
		if kk < 1 || int64(len(vals)) <= kk {
			continue
		}
		top := e.Op == parser.TOPK
		sort.Slice(vals, func(i, j int) bool {
			a, b := vals[i], vals[j]
			if math.IsNaN(a) {
				return false
			}
			if math.IsNaN(b) {
				return true
			}
			if top {
				return a > b
			}
			return a < b
		})
		a, b := vals[kk-1], vals[kk]
		if a == b || (math.IsNaN(a) && math.IsNaN(b)) {
			return true
		}
	}
	return false
}

// paramInSitu renders an aggregation parameter as the stand-alone query that has the
// value the parameter takes inside the aggregation. The pinned promql.PreprocessExpr never
// visits parameters: there @ start() / @ end() stay unresolved and are ignored, and a
// literal @ t becomes the fixed offset (start - t) of a range query (KF-param-at). As a
// query of its own the parameter would be preprocessed and pinned properly.
func paramInSitu(c *core.Case, param parser.Expr) string {
	p, err := parser.ParseExpr(param.String())
	if err != nil {
		return param.String()
	}
	parser.Inspect(p, func(n parser.Node, _ []parser.Node) error {
		vs, ok := n.(*parser.VectorSelector)
		if !ok {
			return nil
		}
		switch {
		case vs.StartOrEnd != 0:
			vs.StartOrEnd = 0
			vs.Timestamp = nil
		case vs.Timestamp != nil && c.Step > 0 && c.End > c.Start:
			vs.OriginalOffset += time.Duration(c.Start-*vs.Timestamp) * time.Millisecond
			vs.Timestamp = nil
		}
		return nil
	})
	return p.String()
}

func groupKey(s oracle.RSeries, e *parser.AggregateExpr) string {
	lb := labels.NewBuilder(s.Labels)
	if e.Without {
		lb.Del(e.Grouping...)
		lb.Del(labels.MetricName)
	} else {
		lb.Keep(e.Grouping...)
	}
	return lb.Labels(nil).String()
}
