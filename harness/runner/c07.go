package runner

import (
	"context"
	"fmt"

	"github.com/prometheus/prometheus/promql/parser"

	"verifharness/core"
	"verifharness/kf"
	"verifharness/memstore"
	"verifharness/oracle"
)

func init() {
	// C07: a range query equals the sequence of instant queries (engine against itself).
	register("C07", func(c *core.Case) core.Verdict {
		if id := kf.Match(c); id != "" {
			return core.Verdict{Status: "known", Known: id}
		}
		SetProcs(c.Procs)
		_, expr, perr := ExprType(c.Query)
		if perr != nil {
			return core.Verdict{Status: "skip", Detail: "parse error: " + perr.Error()}
		}
		feats := Features(c, expr)
		st := memstore.New(c.Series)
		eng := NewEngine(c.Lookback, c.Opt, false)
		qo := QueryOpts(c.QLookback)
		ctx := context.Background()
		rng, cerr := Run(ctx, eng, NewSession(st, c), qo, c.Query, c.Start, c.End, c.Step)
		if cerr != nil {
			if IsUnsupported(cerr) {
				return core.Verdict{Status: "skip", Detail: "fallback", Features: feats}
			}
			return core.Verdict{Status: "skip", Detail: "creation error: " + cerr.Error(), Features: feats}
		}
		evals := 1
		tol := TolOf(c)
		if wf := oracle.WellFormed(rng, expr.Type(), oracle.Window{Start: c.Start, End: c.End, Step: c.Step}); wf != "" {
			return core.Verdict{Status: "violation", Detail: fmt.Sprintf("query: %s\nwindow %d..%d step %d\nill-formed range result: %s\n%s", c.Query, c.Start, c.End, c.Step, wf, rng), Features: feats}
		}
		n := c.NumSteps()
		for i := 0; i < n; i++ {
			t := c.Start + int64(i)*c.Step
			inst, err := Run(ctx, eng, NewSession(st, c), qo, c.Query, t, t, 0)
			evals++
			if err != nil {
				return violation("query: %s\ninstant query at %d cannot be created (%v) although the range query was", c.Query, t, err)
			}
			if d := compareAt(rng, inst, t, tol); d != "" {
				if (hasFeat(feats, "agg:topk") || hasFeat(feats, "agg:bottomk")) && TopkAmbiguous(c, expr, st) {
					feats = append(feats, "topk-tie-not-judged")
					break
				}
				return core.Verdict{Status: "violation", Features: feats, Evals: evals,
					Detail: fmt.Sprintf("query: %s\nwindow: start=%d end=%d step=%d (steps=%d) lookback=%d qlookback=%d opt=%q procs=%d\nrange result at t=%d (step %d) differs from the instant query at t=%d: %s\nrange:   %s\ninstant: %s\n",
						c.Query, c.Start, c.End, c.Step, n, c.Lookback, c.QLookback, c.Opt, c.Procs, t, i, t, d, rng, inst)}
			}
		}
		// no other points: every point of the range result sits on a grid timestamp <= end (WellFormed checked the grid)
		// sub-window law
		if c.Sub[1] > c.Sub[0] || (c.Sub[0] > 0 && c.Sub[1] >= c.Sub[0]) {
			s0 := c.Start + int64(c.Sub[0])*c.Step
			s1 := c.Start + int64(c.Sub[1])*c.Step
			if s1 <= c.End && c.Sub[1] < n {
				sub, err := Run(ctx, eng, NewSession(st, c), qo, c.Query, s0, s1, c.Step)
				evals++
				if err != nil {
					return violation("query: %s\nsub-window query cannot be created: %v", c.Query, err)
				}
				if rng.Err == nil {
					if sub.Err != nil {
						return violation("query: %s\nsub-window [%d,%d] of [%d,%d] step %d fails (%v) where the full window succeeded", c.Query, s0, s1, c.Start, c.End, c.Step, sub.Err)
					}
					restricted := &oracle.Res{Type: parser.ValueTypeMatrix}
					for _, s := range rng.Series {
						rs := oracle.RSeries{Labels: s.Labels}
						for _, p := range s.Points {
							if p.T >= s0 && p.T <= s1 {
								rs.Points = append(rs.Points, p)
							}
						}
						if len(rs.Points) > 0 {
							restricted.Series = append(restricted.Series, rs)
						}
					}
					if d := equalOrTie(c, expr, st, restricted, sub, tol); d != "" {
						return core.Verdict{Status: "violation", Features: feats, Evals: evals,
							Detail: fmt.Sprintf("query: %s\nwindow: start=%d end=%d step=%d (steps=%d) procs=%d\nresult over [%d,%d] restricted to [%d,%d] differs from the result over [%d,%d]: %s\nfull: %s\nsub:  %s\n",
								c.Query, c.Start, c.End, c.Step, n, c.Procs, c.Start, c.End, s0, s1, s0, s1, d, rng, sub)}
					}
					feats = append(feats, "subwindow")
				}
			}
		}
		nt := n > 10 && rng.Err == nil && !rng.Empty() && seriesVary(rng, n)
		return core.Verdict{Status: "ok", Nontrivial: nt, Features: feats, Evals: evals}
	})
}

// seriesVary reports whether the result is non-empty at >=2 steps with different content.
func seriesVary(r *oracle.Res, n int) bool {
	for _, s := range r.Series {
		if len(s.Points) >= 2 {
			for i := 1; i < len(s.Points); i++ {
				if s.Points[i].V != s.Points[0].V {
					return true
				}
			}
		}
		if len(s.Points) > 0 && len(s.Points) < n {
			return true
		}
	}
	return false
}
