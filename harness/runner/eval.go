package runner

import (
	"context"
	"fmt"
	"runtime"
	"runtime/debug"
	"strings"
	"time"

	"github.com/prometheus/prometheus/promql/parser"

	"verifharness/core"
	"verifharness/kf"
	"verifharness/memstore"
	"verifharness/oracle"
)

// Eval dispatches a case to its property evaluator. Panics on the evaluating
// goroutine are violations (the engine let a panic escape Exec).
func Eval(c *core.Case) (v core.Verdict) {
	defer func() {
		if r := recover(); r != nil {
			v = core.Verdict{Status: "violation", Detail: fmt.Sprintf("panic escaped to the caller: %v\n%s", r, debug.Stack())}
		}
	}()
	fn, ok := evaluators[c.Prop]
	if !ok {
		return core.Verdict{Status: "infra", Detail: "no evaluator for " + c.Prop}
	}
	if baseGoroutines == 0 {
		baseGoroutines = runtime.NumGoroutine()
	}
	v = fn(c)
	// Wait for the goroutines of this case to end so that a late crash is
	// attributed to the case that caused it.
	if !WaitQuiet(2 * time.Second) {
		v.Features = append(v.Features, "goroutines-linger")
		// stuck goroutines must not be attributed to the cases that follow
		v.Restart = true
	}
	return v
}

var baseGoroutines int

// WaitQuiet waits until no goroutines beyond the idle baseline remain.
func WaitQuiet(max time.Duration) bool {
	deadline := time.Now().Add(max)
	for i := 0; ; i++ {
		if runtime.NumGoroutine() <= baseGoroutines {
			return true
		}
		if time.Now().After(deadline) {
			return false
		}
		if i < 50 {
			runtime.Gosched()
		} else {
			time.Sleep(200 * time.Microsecond)
		}
	}
}

var evaluators = map[string]func(*core.Case) core.Verdict{}

func register(id string, fn func(*core.Case) core.Verdict) { evaluators[id] = fn }

func ok(nontrivial bool, feats []string) core.Verdict {
	return core.Verdict{Status: "ok", Nontrivial: nontrivial, Features: feats}
}

func violation(format string, args ...interface{}) core.Verdict {
	return core.Verdict{Status: "violation", Detail: fmt.Sprintf(format, args...)}
}

// Features computes the feature vector of a query / case.
func Features(c *core.Case, expr parser.Expr) []string {
	var f []string
	add := func(s string) {
		for _, x := range f {
			if x == s {
				return
			}
		}
		f = append(f, s)
	}
	depth := 0
	ops := 0
	if expr != nil {
		parser.Inspect(expr, func(n parser.Node, path []parser.Node) error {
			if n == nil {
				return nil
			}
			if len(path)+1 > depth {
				depth = len(path) + 1
			}
			switch e := n.(type) {
			case *parser.AggregateExpr:
				ops++
				add("agg")
				add("agg:" + e.Op.String())
				if e.Without {
					add("without")
				} else if len(e.Grouping) > 0 {
					add("by")
				}
			case *parser.BinaryExpr:
				ops++
				add("binary")
				if e.Op.IsComparisonOperator() {
					add("cmp")
				}
				if e.ReturnBool {
					add("bool")
				}
				ls, rs := e.LHS.Type() == parser.ValueTypeScalar, e.RHS.Type() == parser.ValueTypeScalar
				switch {
				case ls && rs:
					add("bin:ss")
				case ls || rs:
					add("bin:vs")
				default:
					add("bin:vv")
					if e.VectorMatching != nil {
						if e.VectorMatching.Card != parser.CardOneToOne {
							add("group_lr")
						}
						if e.VectorMatching.On {
							add("on")
						} else if len(e.VectorMatching.MatchingLabels) > 0 {
							add("ignoring")
						}
					}
				}
			case *parser.Call:
				ops++
				add("call")
				add("fn:" + e.Func.Name)
			case *parser.MatrixSelector:
				add("matrixsel")
			case *parser.VectorSelector:
				if e.OriginalOffset != 0 {
					add("offset")
				}
				if e.Timestamp != nil || e.StartOrEnd != 0 {
					add("at")
				}
			case *parser.UnaryExpr:
				ops++
				add("unary")
			case *parser.SubqueryExpr:
				add("subquery")
			}
			return nil
		})
		if expr.Type() == parser.ValueTypeScalar {
			add("scalar-typed")
		}
	}
	if ops >= 2 {
		add("ops>=2")
	}
	if ops >= 3 {
		add("ops>=3")
	}
	n := c.NumSteps()
	if c.Instant() {
		add("instant")
	} else {
		add("range")
		if n > 10 {
			add("steps>10")
			if n%10 != 0 {
				add("steps>10,indivisible")
			}
		}
		if n > 100 {
			add("steps>100")
		}
	}
	if c.QLookback != 0 {
		add("qlookback")
	}
	if c.Lookback != 0 {
		add("lookback-set")
	}
	stale, absent := false, false
	for _, s := range c.Series {
		if len(s.Labels) < 4 {
			absent = true
		}
		for _, p := range s.Samples {
			if p.V.IsStale() && p.T >= c.Start-300000 && p.T <= c.End {
				stale = true
			}
		}
	}
	if stale {
		add("stale-in-window")
	}
	if absent {
		add("absent-label")
	}
	if c.Procs >= 4 {
		add("shards>=2")
	}
	return f
}

func hasFeat(f []string, s string) bool {
	for _, x := range f {
		if x == s {
			return true
		}
	}
	return false
}

// diffOutcome is the result of one differential comparison.
type diffOutcome struct {
	native   bool
	skipWhy  string
	diff     string // "" = equal
	wf       string // well-formedness complaint about the engine's result
	res, ref *oracle.Res
	expr     parser.Expr
	feats    []string
}

// Differential runs the case's query on the engine under test (fallback disabled)
// and on the reference engine over the same store and compares.
func Differential(c *core.Case) diffOutcome {
	out := diffOutcome{}
	SetProcs(c.Procs)
	_, expr, perr := ExprType(c.Query)
	if perr != nil {
		out.skipWhy = "parse error: " + perr.Error()
		return out
	}
	out.expr = expr
	out.feats = Features(c, expr)
	st := memstore.New(c.Series)
	eng := NewEngine(c.Lookback, c.Opt, false)
	ref := NewRef(c.Lookback)
	qo := QueryOpts(c.QLookback)
	ctx := context.Background()

	res, cerr := Run(ctx, eng, NewSession(st, c), qo, c.Query, c.Start, c.End, c.Step)
	if cerr != nil && IsUnsupported(cerr) {
		out.skipWhy = "fallback"
		return out
	}
	out.native = true
	refSess := st.Session()
	refSess.Shuffle = c.Shuffle
	refRes, rerr := Run(ctx, ref, refSess, qo, c.Query, c.Start, c.End, c.Step)
	if (cerr != nil) != (rerr != nil) {
		out.diff = fmt.Sprintf("creation error differs: engine %s, reference %s", fmtErr(cerr), fmtErr(rerr))
		return out
	}
	if cerr != nil {
		return out
	}
	out.res, out.ref = res, refRes
	out.diff = oracle.Equal(res, refRes, TolOf(c))
	if out.diff != "" && (hasFeat(out.feats, "agg:topk") || hasFeat(out.feats, "agg:bottomk")) {
		// A tie at the cut of a topk/bottomk has no defined winner; only then is a
		// difference not judged (a different selection can also make a later
		// operator fail in one engine and not in the other).
		if TopkAmbiguous(c, expr, st) {
			out.diff = ""
			out.feats = append(out.feats, "topk-tie-not-judged")
		}
	}
	out.wf = oracle.WellFormed(res, expr.Type(), oracle.Window{Start: c.Start, End: c.End, Step: c.Step})
	return out
}

func describeDiff(c *core.Case, o diffOutcome) string {
	var sb strings.Builder
	fmt.Fprintf(&sb, "query: %s\nwindow: start=%d end=%d step=%d (steps=%d) lookback=%d qlookback=%d opt=%q procs=%d\n", c.Query, c.Start, c.End, c.Step, c.NumSteps(), c.Lookback, c.QLookback, c.Opt, c.Procs)
	if o.diff != "" {
		fmt.Fprintf(&sb, "difference (engine vs reference): %s\n", o.diff)
	}
	if o.wf != "" {
		fmt.Fprintf(&sb, "ill-formed result: %s\n", o.wf)
	}
	if o.res != nil {
		fmt.Fprintf(&sb, "engine:    %s\n", o.res)
	}
	if o.ref != nil {
		fmt.Fprintf(&sb, "reference: %s\n", o.ref)
	}
	return sb.String()
}

// evalDiff is the shared evaluator for the differential properties C01-C06.
func evalDiff(nontrivial func(c *core.Case, o diffOutcome) bool) func(*core.Case) core.Verdict {
	return func(c *core.Case) core.Verdict {
		if id := kf.Match(c); id != "" {
			return core.Verdict{Status: "known", Known: id}
		}
		o := Differential(c)
		if o.skipWhy != "" {
			return core.Verdict{Status: "skip", Detail: o.skipWhy, Features: o.feats}
		}
		if o.diff != "" || o.wf != "" {
			if id := kf.MatchAfterFailure(c); id != "" {
				return core.Verdict{Status: "known", Known: id, Features: o.feats}
			}
			return core.Verdict{Status: "violation", Detail: describeDiff(c, o), Features: o.feats}
		}
		return ok(nontrivial(c, o), o.feats)
	}
}

func init() {
	register("C01", evalDiff(func(c *core.Case, o diffOutcome) bool {
		return o.ref != nil && !o.ref.Empty() && hasFeat(o.feats, "ops>=2")
	}))
}

// knownDifferential returns the id of an open finding of the differential scope
// (listed for C01) whose trigger matches this query/data/window. Engine-against-itself
// properties consult it before reporting a difference: inside a region where the
// engine is known to deviate from the reference, its own results need not be
// deterministic either (e.g. ties created by timestamp() == 0).
func knownDifferential(c *core.Case, query string, series []core.Series, start, end, step int64) string {
	kc := *c
	kc.Prop = "C01"
	kc.Query = query
	kc.Series = series
	kc.Start, kc.End, kc.Step = start, end, step
	return kf.MatchAfterFailure(&kc)
}

// equalOrTie is oracle.Equal, except that a difference between two successful
// results of a query containing topk/bottomk is not judged when the data holds a
// tie at the cut (the choice among tied series depends on the order in which the
// shards deliver their samples).
func equalOrTie(c *core.Case, expr parser.Expr, st *memstore.Store, a, b *oracle.Res, tol oracle.Tol) string {
	d := oracle.Equal(a, b, tol)
	if d == "" || expr == nil {
		return d
	}
	hasTopk := false
	parser.Inspect(expr, func(n parser.Node, _ []parser.Node) error {
		if agg, ok := n.(*parser.AggregateExpr); ok && (agg.Op == parser.TOPK || agg.Op == parser.BOTTOMK) {
			hasTopk = true
		}
		return nil
	})
	if hasTopk && TopkAmbiguous(c, expr, st) {
		return ""
	}
	if hasTopk {
		if id := knownDifferential(c, c.Query, c.Series, c.Start, c.End, c.Step); id != "" {
			return ""
		}
	}
	return d
}
