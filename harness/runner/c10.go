package runner

import (
	"context"
	"fmt"

	"github.com/thanos-community/promql-engine/api"
	"github.com/thanos-community/promql-engine/engine"
	"github.com/thanos-community/promql-engine/logicalplan"

	"verifharness/core"
	"verifharness/kf"
	"verifharness/memstore"
	"verifharness/oracle"
)

// NewDistributed builds a distributed engine whose remote engines each hold one partition.
func NewDistributed(c *core.Case, parts []*memstore.Store) Engine {
	remotes := make([]api.RemoteEngine, len(parts))
	for i, p := range parts {
		remotes[i] = engine.NewLocalEngine(EngineOpts(c.Lookback, c.Opt, true), p.Session())
	}
	return engine.NewDistributedEngine(EngineOpts(c.Lookback, c.Opt, true), api.NewStaticEndpoints(remotes))
}

// Partition splits the series of a case according to c.Parts.
func Partition(c *core.Case) []*memstore.Store {
	n := c.NParts
	if n < 1 {
		n = 1
	}
	groups := make([][]core.Series, n)
	if c.Mode == "dist-timesplit" && n >= 2 {
		// every series lives on two engines, which hold disjoint time ranges of it
		for i, s := range c.Series {
			if i%2 == 1 {
				// every other series stays whole on one engine
				groups[i%n] = append(groups[i%n], s)
				continue
			}
			cut := len(s.Samples) / 2
			a, b := i%n, (i+1)%n
			groups[a] = append(groups[a], core.Series{Labels: s.Labels, Samples: s.Samples[:cut]})
			// The second half starts only after a pause longer than any lookback or range:
			// otherwise both engines deliver the series at the steps next to the cut, and
			// whether the merged result fails with "same labelset" or not depends on which
			// of the two a topk on the remote side happens to keep.
			rest := s.Samples[cut:]
			if cut > 0 {
				gap := c.Lookback
				if c.QLookback > gap {
					gap = c.QLookback
				}
				if gap < 300000 {
					gap = 300000
				}
				gap += 600000
				for len(rest) > 0 && rest[0].T <= s.Samples[cut-1].T+gap {
					rest = rest[1:]
				}
			}
			groups[b] = append(groups[b], core.Series{Labels: s.Labels, Samples: rest})
		}
		out := make([]*memstore.Store, n)
		for i := range groups {
			out[i] = memstore.New(groups[i])
		}
		return out
	}
	for i, s := range c.Series {
		p := 0
		if i < len(c.Parts) {
			p = c.Parts[i] % n
		}
		groups[p] = append(groups[p], s)
	}
	out := make([]*memstore.Store, n)
	for i := range groups {
		out[i] = memstore.New(groups[i])
	}
	return out
}

func distPlanHasRemote(c *core.Case, nEngines int) bool {
	expr, err := parserParse(c.Query)
	if err != nil {
		return false
	}
	engines := make([]api.RemoteEngine, nEngines)
	plan := logicalplan.New(expr, ms(c.Start), ms(c.End)).Optimize([]logicalplan.Optimizer{logicalplan.DistributedExecutionOptimizer{Endpoints: api.NewStaticEndpoints(engines)}})
	return containsStr(plan.Expr().String(), "remote(")
}

func init() {
	// C10: distributed == central over the union (and == reference).
	register("C10", func(c *core.Case) core.Verdict {
		SetProcs(c.Procs)
		_, expr, perr := ExprType(c.Query)
		if perr != nil {
			return core.Verdict{Status: "skip", Detail: "parse error: " + perr.Error()}
		}
		feats := Features(c, expr)
		union := memstore.New(c.Series)
		parts := Partition(c)
		qo := QueryOpts(c.QLookback)
		ctx := context.Background()
		tol := TolOf(c)

		central, cerr := Run(ctx, NewEngine(c.Lookback, c.Opt, true), NewSession(union, c), qo, c.Query, c.Start, c.End, c.Step)
		dist, derr := Run(ctx, NewDistributed(c, parts), NewSession(union, c), qo, c.Query, c.Start, c.End, c.Step)
		hdr := fmt.Sprintf("query: %s\nwindow: start=%d end=%d step=%d (steps=%d) lookback=%d procs=%d partitions=%d assignment=%v\n", c.Query, c.Start, c.End, c.Step, c.NumSteps(), c.Lookback, c.Procs, c.NParts, c.Parts)
		if (cerr != nil) != (derr != nil) {
			return violation("%screation differs: distributed %v, central %v", hdr, derr, cerr)
		}
		if cerr != nil {
			return core.Verdict{Status: "skip", Detail: "rejected: " + cerr.Error(), Features: feats}
		}
		hasTopk := hasFeat(feats, "agg:topk") || hasFeat(feats, "agg:bottomk")
		if d := oracle.Equal(dist, central, tol); d != "" {
			if hasTopk && TopkAmbiguous(c, expr, union) {
				feats = append(feats, "topk-tie-not-judged")
			} else {
				kc := *c
				kc.Prop = "C10"
				if id := kf.MatchAfterFailure(&kc); id != "" {
					return core.Verdict{Status: "known", Known: id, Features: feats}
				}
				return core.Verdict{Status: "violation", Features: feats, Evals: 2,
					Detail: fmt.Sprintf("%sdistributed result differs from central: %s\ndistributed: %s\ncentral:     %s\n", hdr, d, dist, central)}
			}
		}
		if wf := oracle.WellFormed(dist, expr.Type(), oracle.Window{Start: c.Start, End: c.End, Step: c.Step}); wf != "" {
			kc := *c
			kc.Prop = "C10"
			if id := kf.MatchAfterFailure(&kc); id != "" {
				return core.Verdict{Status: "known", Known: id, Features: feats}
			}
			return violation("%sill-formed distributed result: %s\n%s", hdr, wf, dist)
		}
		nonEmpty := 0
		for _, p := range parts {
			if len(p.Dump()) > 0 {
				nonEmpty++
			}
		}
		remote := distPlanHasRemote(c, c.NParts)
		if remote {
			feats = append(feats, "remote-exec")
		}
		if nonEmpty >= 2 {
			feats = append(feats, "parts>=2")
		}
		nt := nonEmpty >= 2 && remote && !central.Empty()
		return core.Verdict{Status: "ok", Nontrivial: nt, Features: feats, Evals: 2}
	})
}
