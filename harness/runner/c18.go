package runner

import (
	"context"
	"fmt"
	"strings"
	"time"

	"github.com/prometheus/prometheus/model/labels"

	"github.com/thanos-community/promql-engine/execution"
	"github.com/thanos-community/promql-engine/execution/model"
	"github.com/thanos-community/promql-engine/logicalplan"

	"verifharness/contract"
	"verifharness/core"
	"verifharness/memstore"
	"verifharness/oracle"
)

type stream struct {
	series []labels.Labels
	vecs   []model.StepVector // deep copies
	err    error
}

// drive builds the physical plan through the exported execution.New and pulls it
// to the end in the given call order.
func drive(c *core.Case, st *memstore.Store, order string) (stream, error) {
	expr, err := parserParse(c.Query)
	if err != nil {
		return stream{}, err
	}
	opts := Optimizers(c.Opt)
	if opts == nil {
		opts = logicalplan.DefaultOptimizers
	}
	plan := logicalplan.New(expr, ms(c.Start), ms(c.End)).Optimize(opts)
	op, err := execution.New(plan.Expr(), NewSession(st, c), ms(c.Start), ms(c.End), time.Duration(c.Step)*time.Millisecond, time.Duration(effLookback(c))*time.Millisecond)
	if err != nil {
		return stream{}, err
	}
	ctx, cancel := context.WithCancel(context.Background())
	defer cancel()
	out := stream{}
	if order == "series-first" {
		out.series, out.err = op.Series(ctx)
		if out.err != nil {
			return out, nil
		}
	}
	for {
		batch, err := op.Next(ctx)
		if err != nil {
			out.err = err
			return out, nil
		}
		if batch == nil {
			break
		}
		for _, v := range batch {
			out.vecs = append(out.vecs, model.StepVector{T: v.T, SampleIDs: append([]uint64(nil), v.SampleIDs...), Samples: append([]float64(nil), v.Samples...)})
			op.GetPool().PutStepVector(v)
		}
		op.GetPool().PutVectors(batch)
	}
	if order != "series-first" {
		out.series, out.err = op.Series(ctx)
	}
	// stays ended
	if again, err := op.Next(ctx); err == nil && again != nil {
		return out, fmt.Errorf("top-level operator returned %d vectors after the end of its stream", len(again))
	}
	return out, nil
}

// canonical renders a stream independent of sample order within a step.
func canonical(s stream) string {
	var sb strings.Builder
	if s.err != nil {
		return "ERR"
	}
	for _, v := range s.vecs {
		if len(v.Samples) == 0 {
			continue
		}
		type kv struct {
			l string
			v float64
		}
		var xs []string
		for i, id := range v.SampleIDs {
			l := "?"
			if int(id) < len(s.series) {
				l = s.series[id].String()
			}
			xs = append(xs, fmt.Sprintf("%s=%v", l, v.Samples[i]))
		}
		sortStrings(xs)
		fmt.Fprintf(&sb, "@%d %s\n", v.T, strings.Join(xs, " "))
	}
	return sb.String()
}

func sortStrings(x []string) {
	for i := 1; i < len(x); i++ {
		for j := i; j > 0 && x[j] < x[j-1]; j-- {
			x[j], x[j-1] = x[j-1], x[j]
		}
	}
}

func init() {
	// C18: operator stream contract, observed by the monitor behind the verif hook.
	register("C18", func(c *core.Case) core.Verdict {
		if !contract.Enabled {
			return core.Verdict{Status: "infra", Detail: "harness built without -tags verif: no operator hook"}
		}
		SetProcs(c.Procs)
		_, expr, perr := ExprType(c.Query)
		if perr != nil {
			return core.Verdict{Status: "skip", Detail: "parse error: " + perr.Error()}
		}
		feats := Features(c, expr)
		st := memstore.New(c.Series)
		var streams [2]stream
		ops := 0
		for i, order := range []string{"series-first", "next-first"} {
			col := &contract.Collector{}
			contract.Install(col)
			s, err := drive(c, st, order)
			contract.Uninstall()
			if err != nil {
				if IsUnsupported(err) {
					return core.Verdict{Status: "skip", Detail: "fallback", Features: feats}
				}
				if strings.Contains(err.Error(), "after the end of its stream") {
					return violation("%s%s: %v", caseHdr(c), order, err)
				}
				return core.Verdict{Status: "skip", Detail: "plan not built: " + err.Error(), Features: feats}
			}
			if len(col.Violations) > 0 {
				return core.Verdict{Status: "violation", Features: feats,
					Detail: fmt.Sprintf("%scall order %s: operator contract violated (%d operators, %d batches observed):\n  %s\n", caseHdr(c), order, col.Operators, col.Batches, strings.Join(col.Violations, "\n  "))}
			}
			streams[i] = s
			ops = col.Operators
		}
		a, b := canonical(streams[0]), canonical(streams[1])
		if a != b && streamsEqual(streams[0], streams[1], Scale(c.Series)) {
			b = a // equal up to floating-point summation order
		}
		if a != b {
			if (hasFeat(feats, "agg:topk") || hasFeat(feats, "agg:bottomk")) && TopkAmbiguous(c, expr, st) {
				feats = append(feats, "topk-tie-not-judged")
			} else if id := knownDifferential(c, c.Query, c.Series, c.Start, c.End, c.Step); id != "" {
				return core.Verdict{Status: "known", Known: id, Features: feats}
			} else {
				return core.Verdict{Status: "violation", Features: feats, Detail: fmt.Sprintf("%sthe stream obtained with Next called first differs from the one obtained with Series called first:\nseries-first:\n%s\nnext-first:\n%s\n", caseHdr(c), trunc(a, 1500), trunc(b, 1500))}
			}
		}
		nt := ops >= 3 && c.NumSteps() > 10
		feats = append(feats, fmt.Sprintf("operators:%s", bucket(ops)))
		return core.Verdict{Status: "ok", Nontrivial: nt, Features: feats, Evals: 2}
	})
}

func trunc(s string, n int) string {
	if len(s) > n {
		return s[:n] + "..."
	}
	return s
}

// streamsEqual compares two streams step by step with the value tolerance of the
// oracle library (the order of additions may differ between two executions).
func streamsEqual(x, y stream, scale float64) bool {
	toRes := func(s stream) *oracle.Res {
		r := &oracle.Res{Type: "matrix"}
		if s.err != nil {
			r.Err = s.err
			return r
		}
		m := map[string]*oracle.RSeries{}
		var order []string
		for _, v := range s.vecs {
			for i, id := range v.SampleIDs {
				var ls labels.Labels
				if int(id) < len(s.series) {
					ls = s.series[id]
				}
				k := fmt.Sprintf("%d|%s", id, ls.String())
				if m[k] == nil {
					m[k] = &oracle.RSeries{Labels: append(labels.Labels{{Name: "__id", Value: fmt.Sprint(id)}}, ls...)}
					order = append(order, k)
				}
				m[k].Points = append(m[k].Points, oracle.Point{T: v.T, V: v.Samples[i]})
			}
		}
		for _, k := range order {
			r.Series = append(r.Series, *m[k])
		}
		return r
	}
	rx, ry := toRes(x), toRes(y)
	// series IDs may differ between the two plans; compare by label set only
	strip := func(r *oracle.Res) {
		for i := range r.Series {
			r.Series[i].Labels = r.Series[i].Labels[1:]
		}
	}
	strip(rx)
	strip(ry)
	return oracle.Equal(rx, ry, oracle.DefaultTol(scale)) == ""
}
