// Package core holds the serialisable test-case and verdict types shared by the
// generators (parent, rapid process) and the executor (child process).
package core

import (
	"encoding/json"
	"fmt"
	"hash/fnv"
	"math"
	"sort"
	"strconv"

	"github.com/prometheus/prometheus/model/labels"
	"github.com/prometheus/prometheus/model/value"
)

// F is a float64 that survives JSON (NaN, +-Inf and the staleness marker are
// written as strings; everything else as the shortest exact decimal).
type F float64

var staleBits = value.StaleNaN

func Stale() F { return F(math.Float64frombits(staleBits)) }

func (f F) IsStale() bool { return math.Float64bits(float64(f)) == staleBits }

func (f F) MarshalJSON() ([]byte, error) {
	v := float64(f)
	switch {
	case f.IsStale():
		return []byte(`"stale"`), nil
	case math.IsNaN(v):
		return []byte(`"NaN"`), nil
	case math.IsInf(v, 1):
		return []byte(`"+Inf"`), nil
	case math.IsInf(v, -1):
		return []byte(`"-Inf"`), nil
	}
	return []byte(strconv.FormatFloat(v, 'g', -1, 64)), nil
}

func (f *F) UnmarshalJSON(b []byte) error {
	if len(b) > 0 && b[0] == '"' {
		var s string
		if err := json.Unmarshal(b, &s); err != nil {
			return err
		}
		switch s {
		case "stale":
			*f = Stale()
		case "NaN":
			*f = F(math.NaN())
		case "+Inf":
			*f = F(math.Inf(1))
		case "-Inf":
			*f = F(math.Inf(-1))
		default:
			return fmt.Errorf("bad float %q", s)
		}
		return nil
	}
	v, err := strconv.ParseFloat(string(b), 64)
	if err != nil {
		return err
	}
	*f = F(v)
	return nil
}

type Label struct {
	N string `json:"n"`
	V string `json:"v"`
}

type Sample struct {
	T int64 `json:"t"`
	V F     `json:"v"`
}

type Series struct {
	Labels  []Label  `json:"l"`
	Samples []Sample `json:"s"`
}

func (s Series) Lset() labels.Labels {
	ls := make(labels.Labels, 0, len(s.Labels))
	for _, l := range s.Labels {
		ls = append(ls, labels.Label{Name: l.N, Value: l.V})
	}
	sort.Sort(ls)
	return ls
}

// Fault describes one injected storage fault.
type Fault struct {
	// Kind: "panic", "error", "cancel", "block", "deadline".
	Kind string `json:"kind"`
	// Class of callback counted: "any" or one of the memstore callback names
	// (querier, select, ssnext, sserr, labels, iterator, seek, next, at, iterr).
	Class string `json:"class"`
	// K: fire at the K-th (0-based) callback of the class.
	K int `json:"k"`
}

// Action is one step of a C20 / C12 history.
type Action struct {
	Op     string   `json:"op"` // "query", "append", "addseries", "close", "cancelquery"
	Query  string   `json:"q,omitempty"`
	Start  int64    `json:"start,omitempty"`
	End    int64    `json:"end,omitempty"`
	Step   int64    `json:"step,omitempty"`
	Series *Series  `json:"series,omitempty"` // addseries
	Idx    int      `json:"idx,omitempty"`    // append: series index; close: query index
	Points []Sample `json:"pts,omitempty"`    // append
	Fall   bool     `json:"fall,omitempty"`   // run on engine with fallback enabled
	// QLookback: per-query lookback delta in ms (QueryOpts); 0 = no options, -1 = empty options
	QLookback int64 `json:"qlb,omitempty"`
}

// Case is one generated test case. Step==0 means an instant query at Start.
type Case struct {
	Prop   string   `json:"prop"`
	Query  string   `json:"query,omitempty"`
	Series []Series `json:"series,omitempty"`
	Start  int64    `json:"start"`
	End    int64    `json:"end"`
	Step   int64    `json:"step"`

	Lookback  int64  `json:"lookback,omitempty"`  // engine lookback ms; 0 = default (5m)
	QLookback int64  `json:"qlookback,omitempty"` // per-query lookback ms; 0 = none given; -1 = opts given with zero
	Opt       string `json:"opt,omitempty"`       // none|default|all|sort|merge|propagate
	Procs     int    `json:"procs,omitempty"`     // GOMAXPROCS, 0 = leave
	Shuffle   uint64 `json:"shuffle,omitempty"`   // storage series order permutation seed, 0 = sorted
	Trim      bool   `json:"trim,omitempty"`      // storage trims samples to hints
	Fallback  bool   `json:"fallback,omitempty"`  // engine under test created with fallback enabled

	Fault  *Fault   `json:"fault,omitempty"`
	Faults []Fault  `json:"faults,omitempty"`
	Delay  uint64   `json:"delay,omitempty"` // schedule perturbation script seed, 0 = none
	Sub    [2]int   `json:"sub,omitempty"`   // C07 sub-window step indices
	Parts  []int    `json:"parts,omitempty"` // C10 partition of series to remote engines
	NParts int      `json:"nparts,omitempty"`
	Procs2 []int    `json:"procs2,omitempty"` // C11 GOMAXPROCS variants
	Extra  []Series `json:"extra,omitempty"`  // C11 unrelated series
	Hist   []Action `json:"hist,omitempty"`   // C12/C20 history
	Order  string   `json:"order,omitempty"`  // C18 call order: "series-first"|"next-first"
	Mode   string   `json:"mode,omitempty"`   // property specific sub-mode
	Note   string   `json:"note,omitempty"`
}

func (c *Case) Instant() bool { return c.Step == 0 }

func (c *Case) NumSteps() int {
	if c.Step == 0 {
		return 1
	}
	return int((c.End-c.Start)/c.Step) + 1
}

func (c *Case) JSON() []byte {
	b, err := json.Marshal(c)
	if err != nil {
		panic(err)
	}
	return b
}

func (c *Case) Hash() uint64 {
	h := fnv.New64a()
	h.Write(c.JSON())
	return h.Sum64()
}

// Verdict is the executor's answer for one case.
type Verdict struct {
	// Status: ok | violation | known | skip | crash | hang | infra
	Status     string   `json:"status"`
	Detail     string   `json:"detail,omitempty"`
	Nontrivial bool     `json:"nontrivial,omitempty"`
	Features   []string `json:"features,omitempty"`
	Known      string   `json:"known,omitempty"` // id of the known finding whose trigger matched
	Evals      int      `json:"evals,omitempty"` // number of engine executions performed for this case
	// Restart: the executor is left with stuck goroutines (a hang or a leak was observed);
	// the parent starts a fresh executor for the next case so that the leftovers are not
	// attributed to it.
	Restart bool `json:"restart,omitempty"`
}

func (v Verdict) Bad() bool {
	return v.Status == "violation" || v.Status == "crash" || v.Status == "hang"
}
