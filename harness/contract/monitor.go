//go:build verif

// Package contract is the operator-boundary monitor of C18. It is registered with
// the repository's verif hook and wraps every operator the planner builds.
package contract

import (
	"context"
	"fmt"
	"sync"
	"sync/atomic"

	"github.com/prometheus/prometheus/model/labels"
	"github.com/prometheus/prometheus/model/value"
	"github.com/prometheus/prometheus/promql/parser"

	"github.com/thanos-community/promql-engine/execution"
	"github.com/thanos-community/promql-engine/execution/model"
	"github.com/thanos-community/promql-engine/query"
)

// Collector gathers the violations and statistics of one plan.
type Collector struct {
	mu         sync.Mutex
	Violations []string
	Operators  int
	NextCalls  int
	Batches    int
	EmptyTsOff int // empty vectors whose timestamp is off the expected grid position (recorded, judged separately)
	Delay      uint64
}

func (c *Collector) violate(format string, args ...interface{}) {
	c.mu.Lock()
	if len(c.Violations) < 10 {
		c.Violations = append(c.Violations, fmt.Sprintf(format, args...))
	}
	c.mu.Unlock()
}

var (
	activeMu sync.Mutex
	active   *Collector
)

// Install registers the wrapper; operators built from now on report to col.
func Install(col *Collector) {
	activeMu.Lock()
	active = col
	activeMu.Unlock()
	execution.SetOperatorWrapper(wrap)
}

// Uninstall removes the wrapper.
func Uninstall() {
	execution.SetOperatorWrapper(nil)
	activeMu.Lock()
	active = nil
	activeMu.Unlock()
}

func wrap(op model.VectorOperator, expr parser.Expr, opts *query.Options) model.VectorOperator {
	activeMu.Lock()
	col := active
	activeMu.Unlock()
	if col == nil {
		return op
	}
	col.mu.Lock()
	col.Operators++
	id := col.Operators
	col.mu.Unlock()
	me, _ := op.Explain()
	step := opts.Step.Milliseconds()
	m := &monitored{next: op, col: col, name: fmt.Sprintf("#%d %s", id, me), start: opts.Start.UnixMilli(), end: opts.End.UnixMilli(), step: step, batch: int(opts.StepsBatch)}
	if expr != nil {
		m.name += " <" + trunc(expr.String(), 60) + ">"
	}
	// Operators which feed the same consumer are paired by position in the batch.
	if _, kids := op.Explain(); len(kids) >= 2 {
		for _, k := range kids {
			if km, ok := k.(*monitored); ok {
				km.mu.Lock()
				km.hasSibling = true
				km.mu.Unlock()
			}
		}
	}
	return m
}

func trunc(s string, n int) string {
	if len(s) > n {
		return s[:n] + "..."
	}
	return s
}

type monitored struct {
	next  model.VectorOperator
	col   *Collector
	name  string
	start int64
	end   int64
	step  int64
	batch int

	inflight int32
	mu       sync.Mutex
	series   []labels.Labels
	seriesOK bool
	emitted  int // step vectors emitted so far
	ended    bool
	// hasSibling: the consumer of this operator has further inputs, which it pairs with
	// this one by position; set while the plan is built.
	hasSibling bool
}

func (m *monitored) Explain() (string, []model.VectorOperator) { return m.next.Explain() }
func (m *monitored) GetPool() *model.VectorPool                { return m.next.GetPool() }

func (m *monitored) numSteps() int {
	if m.step == 0 {
		return 1
	}
	return int((m.end-m.start)/m.step) + 1
}

func sameSeries(a, b []labels.Labels) bool {
	if len(a) != len(b) {
		return false
	}
	for i := range a {
		if !labels.Equal(a[i], b[i]) {
			return false
		}
	}
	return true
}

func copySeries(s []labels.Labels) []labels.Labels {
	out := make([]labels.Labels, len(s))
	for i := range s {
		out[i] = s[i].Copy()
	}
	return out
}

func (m *monitored) Series(ctx context.Context) ([]labels.Labels, error) {
	s, err := m.next.Series(ctx)
	if err != nil {
		return s, err
	}
	m.mu.Lock()
	defer m.mu.Unlock()
	if !m.seriesOK {
		m.series = copySeries(s)
		m.seriesOK = true
	} else if !sameSeries(m.series, s) {
		m.col.violate("%s: Series() returned a different list than before (%d vs %d series)", m.name, len(s), len(m.series))
	}
	return s, nil
}

func (m *monitored) Next(ctx context.Context) ([]model.StepVector, error) {
	if n := atomic.AddInt32(&m.inflight, 1); n > 1 {
		m.col.violate("%s: %d Next calls in flight at once", m.name, n)
	}
	defer atomic.AddInt32(&m.inflight, -1)
	m.col.mu.Lock()
	m.col.NextCalls++
	m.col.mu.Unlock()

	out, err := m.next.Next(ctx)
	if err != nil {
		return out, err
	}
	m.mu.Lock()
	wasEnded := m.ended
	m.mu.Unlock()
	if out == nil {
		m.mu.Lock()
		m.ended = true
		m.mu.Unlock()
		// once ended, it stays ended
		again, err2 := m.next.Next(ctx)
		if err2 == nil && again != nil {
			m.col.violate("%s: after signalling the end of its stream a further Next returned %d vectors", m.name, len(again))
		}
		return nil, nil
	}
	if wasEnded {
		m.col.violate("%s: returned %d vectors after it had signalled the end of its stream", m.name, len(out))
	}
	m.check(ctx, out)
	return out, nil
}

func (m *monitored) check(ctx context.Context, out []model.StepVector) {
	m.col.mu.Lock()
	m.col.Batches++
	m.col.mu.Unlock()
	if m.batch > 0 && len(out) > m.batch {
		m.col.violate("%s: batch of %d step vectors exceeds the batch size %d", m.name, len(out), m.batch)
	}
	total := m.numSteps()
	m.mu.Lock()
	base := m.emitted
	m.emitted += len(out)
	series := m.series
	seriesOK := m.seriesOK
	hasSibling := m.hasSibling
	m.mu.Unlock()
	if base+len(out) > total {
		m.col.violate("%s: emitted %d step vectors for a window of %d steps", m.name, base+len(out), total)
	}
	// "no step skipped relative to its siblings": consumers pair their inputs by position in
	// the batch, so an input that has siblings must fill every batch but its last one
	if hasSibling && m.batch > 0 && base+len(out) < total && len(out) != m.batch {
		m.col.violate("%s: batch starting at step %d carries %d vectors (batch size %d, %d steps in total): a step was skipped", m.name, base, len(out), m.batch, total)
	}
	if !seriesOK {
		// the consumer pulled batches first; ask for the series now (allowed at any time)
		s, err := m.next.Series(ctx)
		if err == nil {
			m.mu.Lock()
			if !m.seriesOK {
				m.series = copySeries(s)
				m.seriesOK = true
			}
			series = m.series
			seriesOK = true
			m.mu.Unlock()
		}
	}
	var prevT int64
	havePrev := false
	for i, v := range out {
		want := m.start + int64(base+i)*m.step
		if len(v.Samples) != len(v.SampleIDs) {
			m.col.violate("%s: step vector %d has %d samples but %d sample IDs", m.name, base+i, len(v.Samples), len(v.SampleIDs))
			continue
		}
		if len(v.Samples) == 0 {
			if v.T != want {
				m.col.mu.Lock()
				m.col.EmptyTsOff++
				m.col.mu.Unlock()
			}
			continue
		}
		if v.T != want {
			m.col.violate("%s: vector %d of the stream carries samples for t=%d, its grid position is t=%d", m.name, base+i, v.T, want)
		}
		if havePrev && v.T <= prevT {
			m.col.violate("%s: step order not strictly increasing (%d after %d)", m.name, v.T, prevT)
		}
		prevT, havePrev = v.T, true
		seen := make(map[uint64]struct{}, len(v.SampleIDs))
		for j, id := range v.SampleIDs {
			if _, dup := seen[id]; dup {
				m.col.violate("%s: t=%d: sample ID %d appears twice in one step", m.name, v.T, id)
				break
			}
			seen[id] = struct{}{}
			if seriesOK && id >= uint64(len(series)) {
				m.col.violate("%s: t=%d: sample ID %d does not index the series list (len %d)", m.name, v.T, id, len(series))
				break
			}
			if value.IsStaleNaN(v.Samples[j]) {
				m.col.violate("%s: t=%d: staleness marker emitted", m.name, v.T)
				break
			}
		}
	}
}

const Enabled = true
