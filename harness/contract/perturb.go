//go:build verif

package contract

import (
	"context"
	"runtime"
	"sync/atomic"
	"time"

	"github.com/prometheus/prometheus/model/labels"
	"github.com/prometheus/prometheus/promql/parser"

	"github.com/thanos-community/promql-engine/execution"
	"github.com/thanos-community/promql-engine/execution/model"
	"github.com/thanos-community/promql-engine/query"
)

// InstallPerturbation wraps every operator built from now on with a wrapper that
// yields or sleeps for a few microseconds before some Next/Series calls, driven by a
// hash of (seed, call counter): scheduling perturbation at operator boundaries
// (C11, C12). It does not observe or change any data.
func InstallPerturbation(seed uint64) {
	var calls uint64
	execution.SetOperatorWrapper(func(op model.VectorOperator, _ parser.Expr, _ *query.Options) model.VectorOperator {
		return &perturbed{next: op, seed: seed, calls: &calls}
	})
}

type perturbed struct {
	next  model.VectorOperator
	seed  uint64
	calls *uint64
}

func mix(x uint64) uint64 {
	x += 0x9e3779b97f4a7c15
	x = (x ^ (x >> 30)) * 0xbf58476d1ce4e5b9
	x = (x ^ (x >> 27)) * 0x94d049bb133111eb
	return x ^ (x >> 31)
}

func (p *perturbed) pause() {
	n := atomic.AddUint64(p.calls, 1)
	switch x := mix(p.seed + n*0x9e3779b97f4a7c15); x % 8 {
	case 0, 1:
		runtime.Gosched()
	case 2:
		time.Sleep(time.Duration(x>>8%40) * time.Microsecond)
	}
}

func (p *perturbed) Next(ctx context.Context) ([]model.StepVector, error) {
	p.pause()
	return p.next.Next(ctx)
}

func (p *perturbed) Series(ctx context.Context) ([]labels.Labels, error) {
	p.pause()
	return p.next.Series(ctx)
}

func (p *perturbed) GetPool() *model.VectorPool                { return p.next.GetPool() }
func (p *perturbed) Explain() (string, []model.VectorOperator) { return p.next.Explain() }
