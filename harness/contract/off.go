//go:build !verif

package contract

// Collector is a stub without the verif build tag.
type Collector struct {
	Violations []string
	Operators  int
	NextCalls  int
	Batches    int
	EmptyTsOff int
	Delay      uint64
}

func Install(*Collector) {}
func Uninstall()         {}

const Enabled = false

func InstallPerturbation(uint64) {}
