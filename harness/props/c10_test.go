package props

import (
	"os"
	"strconv"
	"testing"

	"pgregory.net/rapid"

	"verifharness/core"
	"verifharness/gen"
)

func TestC10(t *testing.T) {
	runProp(t, "C10", func(t *rapid.T) *core.Case {
		p := gen.Profile{MaxDepth: 3, Metrics: []string{"m", "m", "n"}, Nameless: true}
		if rapid.IntRange(0, 1).Draw(t, "aggfocus") == 0 {
			// aggregation-rooted queries over few metric names: the groups are then split across partitions
			p.Focus = "agg"
			p.MaxDepth = 2
		}
		few := rapid.IntRange(0, 2).Draw(t, "fewvalues") == 0
		c := drawGeneral(t, p, gen.WindowOpts{}, gen.DataOpts{Specials: true, MaxSeries: 12, MinSeries: 3, Histogram: true, Metrics: []string{"m", "m", "n"}, Twins: true, FewValues: few})
		if p.Focus == "agg" && rapid.IntRange(0, 3).Draw(t, "reagg") == 0 {
			// the whole query aggregated once more, preferably by the operator it already ends in
			// (topk/bottomk only over a query that already ends in one: its values are then input samples,
			// not sums whose rounding could decide the selection)
			op := rapid.SampledFrom([]string{"sum", "min", "max", "count", "group"}).Draw(t, "reaggop")
			for _, o := range gen.AggOps {
				if len(c.Query) > len(o) && c.Query[:len(o)] == o && rapid.IntRange(0, 2).Draw(t, "sameop") > 0 {
					switch o {
					case "sum", "min", "max", "count", "group", "topk", "bottomk":
						op = o
					}
				}
			}
			grp := rapid.SampledFrom([]string{"", " by (a)", " by (b)", " without (a)", " by (a, b)"}).Draw(t, "reagggrp")
			if op == "topk" || op == "bottomk" {
				c.Query = op + grp + " (" + strconv.Itoa(rapid.IntRange(1, 3).Draw(t, "reaggk")) + ", " + c.Query + ")"
			} else {
				c.Query = op + grp + " (" + c.Query + ")"
			}
		}
		c.NParts = rapid.IntRange(1, 4).Draw(t, "nparts")
		c.Parts = make([]int, len(c.Series))
		for i := range c.Parts {
			c.Parts[i] = rapid.IntRange(0, c.NParts-1).Draw(t, "part")
		}
		return c
	})
}

var c10Queries = []string{
	"m", "sum(m)", "sum by (a) (m)", "count(m)", "count by (b) (m)", "min without (a) (m)", "max by (a, b) (m)", "group(m)",
	"avg(m)", "avg by (a) (m)", "stddev(m)", "quantile(0.5, m)", "topk(2, m)", "bottomk by (a) (1, m)",
	"rate(m[2m])", "sum(rate(m[2m]))", "sum by (a) (rate(m[1m]))", "max(sum by (a) (m))", "sum(m) / count(m)",
	"sum by (a) (m) + on (a) max by (a) (n)", "abs(sum by (a) (m))", "sum(abs(m))", "-sum(m)", "sum(m) > bool 3",
	"m + n", "sum(m + n)", "count(m > 0)", "sum(m @ end())", "sum(m offset 1m)", "clamp_min(sum(m), 2)",
	"histogram_quantile(0.5, sum by (le) (h_bucket))", "scalar(sum(m))", "vector(scalar(count(m)))", "sum(count_over_time(m[3m]))",
	"max by (a) (sum by (a, b) (m))", "sum(topk(2, m))", "count(count by (a) (m))",
	// an aggregation re-aggregated by the same operator
	"sum(sum by (a) (m))", "max(max by (a, b) (m))", "min by (b) (min without (a) (m))", "group(group by (a) (m))",
	"count by (b) (count by (a, b) (m))", "topk(2, topk(1, m))", "topk(1, topk by (a) (1, m))", "bottomk(2, bottomk by (b) (1, m))",
	"topk by (a) (1, topk(3, m))", "count(count(m))", "sum(count by (a) (m))", "count(sum by (a) (m))",
	// functions whose scalar argument is computed from series
	"clamp_max(m, scalar(count(m)))", "clamp_min(m, scalar(max(m)) - 3)", "sum by (a) (clamp_max(m, scalar(n{a=\"1\"})))", "m * scalar(sum(n))",
}

// TestC10Small enumerates every assignment of <=5 series to <=3 remote engines for a
// list of query shapes (distributable aggregation at every position).
func TestC10Small(t *testing.T) {
	w, _ := strconv.Atoi(os.Getenv("VERIF_WORKER"))
	nw, _ := strconv.Atoi(os.Getenv("VERIF_WORKERS"))
	if nw == 0 {
		nw = 1
	}
	seed, _ := strconv.Atoi(os.Getenv("VERIF_SEED"))
	thorough := os.Getenv("VERIF_TIER") == "thorough"
	nds := 2
	if thorough {
		nds = 8
	}
	runEnum(t, "C10", func(yield func(*core.Case) bool) {
		idx := 0
		for d := 0; d < nds; d++ {
			base := rapid.Custom(func(t *rapid.T) *core.Case {
				wo := gen.WindowOpts{}
				w := gen.DrawWindow(t, wo)
				cfg := gen.DrawConfig(t)
				ds := gen.DrawDataset(t, w, gen.DataOpts{Specials: true, MaxSeries: 5, MinSeries: 4, Histogram: d%3 == 2, Lookback: cfg.EffLookback(), Metrics: []string{"m", "m", "m", "n"}, FewValues: d%2 == 0})
				c := &core.Case{Series: ds.Series, Start: w.Start, End: w.End, Step: w.Step}
				cfg.Apply(c)
				return c
			}).Example(seed*104729 + d)
			ns := len(base.Series)
			for nparts := 1; nparts <= 3; nparts++ {
				total := 1
				for i := 0; i < ns; i++ {
					total *= nparts
				}
				for a := 0; a < total; a++ {
					parts := make([]int, ns)
					x := a
					for i := range parts {
						parts[i] = x % nparts
						x /= nparts
					}
					for qi, q := range c10Queries {
						idx++
						if idx%nw != w {
							continue
						}
						if !thorough && (a+qi)%3 != 0 {
							continue
						}
						c := *base
						c.Query = q
						c.NParts = nparts
						c.Parts = parts
						c.Mode = "small"
						if !yield(&c) {
							return
						}
					}
				}
			}
		}
	})
}
