package props

import (
	"fmt"
	"os"
	"strconv"
	"strings"
	"testing"

	"pgregory.net/rapid"

	"verifharness/core"
	"verifharness/gen"
)

// matcher alphabet: 2 keys x 4 types x 3 values
func c09Matchers() []string {
	var out []string
	for _, k := range []string{"a", "b"} {
		for _, op := range []string{"=", "!=", "=~", "!~"} {
			for _, v := range []string{"", "1", "1|2"} {
				out = append(out, fmt.Sprintf(`%s%s"%s"`, k, op, v))
			}
		}
	}
	return out
}

// selectors with <= 2 matchers (unordered, repetition allowed): 1 + 24 + 300 = 325
func c09Selectors() []string {
	ms := c09Matchers()
	out := []string{""}
	for _, m := range ms {
		out = append(out, m)
	}
	for i := range ms {
		for j := i; j < len(ms); j++ {
			out = append(out, ms[i]+","+ms[j])
		}
	}
	return out
}

var c09Placements = []string{
	"m{%A} + m{%B}",
	"abs(m{%A}) + m{%B}",
	"sum(max_over_time(m{%A}[2m])) + sum(m{%B})",
	"m{%A} - n{%B}",
	"m{%A} + on (a) m{%B}",
	"m{%A} * ignoring (b) n{%B}",
	"count(m{%A}) by (a) / on (a) group_left () count(m{%B}) by (a, b)",
	"-m{%A} + n{%B}",
	// modifiers on the rewritten selector (data has samples at Base-30s and Base, evaluation at Base+5s)
	"m{%A} @ 3580 + m{%B}",
	"m{%A} offset 20s - m{%B}",
	"m{%A} @ 3580 offset -5s + ignoring (b) group_left () m{%B} @ 3610",
	"sum(m{%A} offset 20s) by (a) + on (a) sum(m{%B} @ 3580) by (a)",
	// matching on the empty label list
	"m{%A} - on () n{%B}",
	"m{%A} * ignoring () n{%B}",
	// a third label key, so that the union of both matcher lists has three and more entries
	"m{c=\"\",%A} - n{%B}",
	"m{%A} * n{c!=\"1\",%B}",
	// several matchers on the metric name
	"{__name__=\"m\",__name__!=\"m\",%A} + m{%B}",
	"{__name__=\"m\",__name__=~\"m|n\",%A} - m{%B}",
	"{__name__=~\"m\",%A} + {__name__=~\"m\",__name__!~\"m|k\",%B}",
}

// c09Data: every label-presence combination (absent/1/2/3) of a and b for metrics m and n.
func c09Data() []core.Series {
	var out []core.Series
	v := 1.0
	for _, name := range []string{"m", "n"} {
		for _, a := range []string{"", "1", "2", "3"} {
			for _, b := range []string{"", "1", "2"} {
				ls := []core.Label{{N: "__name__", V: name}}
				if a != "" {
					ls = append(ls, core.Label{N: "a", V: a})
				}
				if b != "" {
					ls = append(ls, core.Label{N: "b", V: b})
				}
				out = append(out, core.Series{Labels: ls, Samples: []core.Sample{{T: gen.Base - 30000, V: core.F(v)}, {T: gen.Base, V: core.F(v + 0.5)}}})
				v += 1
			}
		}
	}
	return out
}

func splitmix(x uint64) uint64 {
	x += 0x9e3779b97f4a7c15
	x = (x ^ (x >> 30)) * 0xbf58476d1ce4e5b9
	x = (x ^ (x >> 27)) * 0x94d049bb133111eb
	return x ^ (x >> 31)
}

// TestC09Pairs enumerates all ordered selector pairs in every placement (thorough)
// or a seeded ~3% sample of that space (quick), on the full label-presence dataset.
func TestC09Pairs(t *testing.T) {
	sels := c09Selectors()
	data := c09Data()
	w, _ := strconv.Atoi(os.Getenv("VERIF_WORKER"))
	nw, _ := strconv.Atoi(os.Getenv("VERIF_WORKERS"))
	if nw == 0 {
		nw = 1
	}
	seed, _ := strconv.ParseUint(os.Getenv("VERIF_SEED"), 10, 64)
	thorough := os.Getenv("VERIF_TIER") == "thorough"
	runEnum(t, "C09", func(yield func(*core.Case) bool) {
		idx := uint64(0)
		for pi, pl := range c09Placements {
			for _, a := range sels {
				for _, b := range sels {
					idx++
					if int(idx%uint64(nw)) != w {
						continue
					}
					if !thorough && splitmix(seed*1000003+idx)%33 != 0 {
						continue
					}
					q := strings.Replace(strings.Replace(pl, "%A", a, 1), "%B", b, 1)
					c := &core.Case{Query: q, Series: data, Start: gen.Base + 5000, End: gen.Base + 5000, Step: 0, Procs: 1 + 2*int(idx%3), Mode: "pairs", Note: fmt.Sprintf("placement %d", pi)}
					if !yield(c) {
						return
					}
				}
			}
		}
	})
}

// TestC09 draws larger random expressions (with offsets and @ on the selectors).
// drawMergePair draws a query in which a narrower selector of a metric (a candidate for
// the merge-selects rewrite) carries offset / @ modifiers and sits in a drawn position,
// next to the broader selector of the same metric.
func drawMergePair(t *rapid.T, c *core.Case) string {
	broad := rapid.SampledFrom([]string{"m", `m{a!="9"}`, `m{b=~".*"}`}).Draw(t, "broad")
	extra := rapid.SampledFrom([]string{`a="1"`, `b!="2"`, `a=~"1|2"`, `c=""`, `a="1",b="2"`}).Draw(t, "extra")
	narrow := "m{" + extra + "}"
	if i := strings.Index(broad, "{"); i >= 0 {
		narrow = broad[:len(broad)-1] + "," + extra + "}"
	}
	span := c.End - c.Start
	at := func(ms int64) string { return fmt.Sprintf(" @ %d.%03d", ms/1000, ms%1000) }
	mod := rapid.SampledFrom([]string{
		" offset 1m", " offset -30s", " offset 10m", " offset -7m",
		at(c.Start - 900000), at(c.Start - 1000), at(c.Start + span/2), at(c.End + 600000), at(c.Start-600000) + " offset 1m",
		" @ end()", " @ start()", " @ end() offset 2m", " offset 5m" + at(c.Start),
	}).Draw(t, "mod")
	pos := rapid.SampledFrom([]string{"%s", "abs(%s)", "-%s", "timestamp(%s)", "sum(%s)", "sum by (a) (%s)", "max without (b) (%s)",
		"RANGE:rate", "RANGE:count_over_time", "RANGE:last_over_time", "scalar(sum(%s))", "clamp_min(%s, 1)"}).Draw(t, "pos")
	var left string
	if strings.HasPrefix(pos, "RANGE:") {
		left = pos[6:] + "(" + narrow + "[" + rapid.SampledFrom([]string{"1m", "2m", "45s"}).Draw(t, "rng") + "]" + mod + ")"
	} else {
		left = strings.Replace(pos, "%s", narrow+mod, 1)
	}
	right := rapid.SampledFrom([]string{"%s", "sum(%s)", "sum by (a) (%s)", "count(%s)", "abs(%s)"}).Draw(t, "rpos")
	right = strings.Replace(right, "%s", broad, 1)
	glue := rapid.SampledFrom([]string{" + ", " - on (a) ", " / on () ", " * ignoring (b) group_left () ", " > bool "}).Draw(t, "glue")
	if rapid.Bool().Draw(t, "swap") {
		return right + glue + left
	}
	return left + glue + right
}

func TestC09(t *testing.T) {
	runProp(t, "C09", func(t *rapid.T) *core.Case {
		p := gen.Profile{MaxDepth: 3, Metrics: []string{"m", "m", "n"}, Nameless: true}
		c := drawGeneral(t, p, gen.WindowOpts{}, gen.DataOpts{Specials: true, MaxSeries: 12, Twins: true})
		if rapid.IntRange(0, 3).Draw(t, "mergepair") == 0 {
			c.Query = drawMergePair(t, c)
		}
		// a storage that returns only what the select hints ask for (the rewrites must
		// not change the result on such a storage either)
		c.Trim = rapid.IntRange(0, 2).Draw(t, "trim") == 0
		return c
	})
}
