package props

import (
	"testing"

	"pgregory.net/rapid"

	"verifharness/core"
	"verifharness/gen"
)

var c20Fixed = []string{
	"sort(m)", "absent(n)", "m + on (zz) n", "sum(m)", "topk(2, m)", "rate(m[1m])", "m", "scalar(sum(n))", "time()",
	"sum by (a) (rate(m[2m])) / on (a) sum by (a) (n)", "label_replace(m, \"x\", \"$1\", \"a\", \"(.*)\")", "-m", "m @ end()",
	"histogram_quantile(0.9, h_bucket)", "histogram_quantile(0.5, sum by (le, a) (h_bucket))", "histogram_quantile(0.9, h_bucket) + on (a) histogram_quantile(0.1, h_bucket)",
	"{__name__=~\"m.*\"} * 2", "sum by (a) ({__name__=~\"(m|n)2?\"})", "abs({__name__=~\"(m|n)2?\"})", "sum by (a, b, c) (m)", "max by (a) (n)",
}

func drawHistory(t *rapid.T, forC12 bool) *core.Case {
	w := gen.DrawWindow(t, gen.WindowOpts{ForceRange: true, MaxSteps: 25, NoTail: true})
	q := gen.DrawQCtx(t, w)
	cfg := gen.DrawConfig(t)
	ds := gen.DrawDataset(t, w, gen.DataOpts{Specials: true, MaxSeries: 10, MinSeries: 2, Lookback: cfg.EffLookback(), Offsets: q.Offsets, Ranges: q.Ranges, Metrics: []string{"m", "m", "n"}, Histogram: true, Twins: true})
	g := gen.NewG(t, q, gen.Profile{MaxDepth: 3, Nameless: true, HasHist: true}, ds.Cls, w)
	pool := []string{}
	np := rapid.IntRange(2, 4).Draw(t, "npool")
	for i := 0; i < np; i++ {
		s, _, _ := g.Query()
		pool = append(pool, s)
	}
	nf := rapid.IntRange(1, 3).Draw(t, "nfixed")
	for i := 0; i < nf; i++ {
		pool = append(pool, rapid.SampledFrom(c20Fixed).Draw(t, "fixed"))
	}
	c := &core.Case{Series: ds.Series, Start: w.Start, End: w.End, Step: w.Step}
	cfg.Apply(c)
	c.QLookback = 0
	n := rapid.IntRange(4, 50).Draw(t, "histlen")
	for i := 0; i < n; i++ {
		var a core.Action
		k := rapid.IntRange(0, 9).Draw(t, "action")
		if forC12 {
			k = 0
		}
		switch {
		case k <= 4:
			a.Op = "query"
			a.Query = rapid.SampledFrom(pool).Draw(t, "q")
			if rapid.IntRange(0, 2).Draw(t, "inst") == 0 {
				a.Start = w.Start + int64(rapid.IntRange(0, w.Steps()-1).Draw(t, "at"))*w.Step
				a.End = a.Start
			} else {
				a.Start, a.End, a.Step = w.Start, w.End, w.Step
			}
			if !forC12 && rapid.IntRange(0, 9).Draw(t, "cancel") == 0 {
				a.Op = "cancelquery"
			}
			// options of this query only: they must not stick to the engine
			a.QLookback = rapid.SampledFrom([]int64{0, 0, 0, 0, -1, 1000, 30000, 60000, 300000, 900000}).Draw(t, "qlookback")
		case k <= 6:
			a.Op = "append"
			a.Idx = rapid.IntRange(0, 20).Draw(t, "series")
			np := rapid.IntRange(1, 3).Draw(t, "npts")
			for j := 0; j < np; j++ {
				a.Points = append(a.Points, core.Sample{T: int64(rapid.IntRange(1, 60000).Draw(t, "dt")), V: core.F(float64(rapid.IntRange(-40, 40).Draw(t, "av")) * 0.25)})
			}
		case k == 7:
			a.Op = "addseries"
			ls := []core.Label{{N: "__name__", V: rapid.SampledFrom([]string{"m", "n"}).Draw(t, "nm")}, {N: "new", V: string(rune('a' + i%26))}}
			if rapid.Bool().Draw(t, "hasa") {
				ls = append(ls, core.Label{N: "a", V: rapid.SampledFrom([]string{"1", "2"}).Draw(t, "av2")})
			}
			var smp []core.Sample
			for ts := w.Start - 120000; ts <= w.End; ts += 15000 {
				if ts >= 0 {
					smp = append(smp, core.Sample{T: ts, V: core.F(float64(i))})
				}
				if len(smp) > 100 {
					break
				}
			}
			a.Series = &core.Series{Labels: ls, Samples: smp}
		default:
			a.Op = "close"
			a.Idx = rapid.IntRange(0, 50).Draw(t, "closeidx")
		}
		c.Hist = append(c.Hist, a)
	}
	return c
}

func TestC20(t *testing.T) {
	runProp(t, "C20", func(t *rapid.T) *core.Case { return drawHistory(t, false) })
}

func TestC12(t *testing.T) {
	runProp(t, "C12", func(t *rapid.T) *core.Case {
		c := drawHistory(t, true)
		k := rapid.IntRange(2, 32).Draw(t, "K")
		if len(c.Hist) > k {
			c.Hist = c.Hist[:k]
		}
		c.Delay = uint64(rapid.IntRange(1, 1<<30).Draw(t, "delay"))
		c.Procs = rapid.SampledFrom([]int{2, 4, 8, 16}).Draw(t, "procs")
		if d := rapid.IntRange(0, 5).Draw(t, "dist"); d <= 1 {
			c.Mode = "dist"
			if d == 1 {
				c.Mode = "dist-timesplit"
			}
			c.NParts = rapid.IntRange(1, 3).Draw(t, "nparts")
			c.Parts = make([]int, len(c.Series))
			for i := range c.Parts {
				c.Parts[i] = rapid.IntRange(0, c.NParts-1).Draw(t, "part")
			}
		}
		return c
	})
}
