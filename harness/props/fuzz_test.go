package props

import (
	"encoding/json"
	"os"
	"path/filepath"
	"strings"
	"testing"
	"time"

	"github.com/prometheus/prometheus/promql/parser"

	"pgregory.net/rapid"

	"verifharness/core"
	"verifharness/gen"
	"verifharness/runner"
)

// fuzzData is a fixed dataset (a pure function of the code): series for the metric
// names used by the generators and by the repository's own test queries.
func fuzzData() ([]core.Series, gen.Window) {
	w := gen.Window{Start: gen.Base + 60000, End: gen.Base + 60000 + 14*30000, Step: 30000}
	ds := rapid.Custom(func(t *rapid.T) gen.Dataset {
		return gen.DrawDataset(t, w, gen.DataOpts{Specials: true, MaxSeries: 14, MinSeries: 10, Histogram: true, Profile: "exact", Lookback: 300000})
	}).Example(4242)
	out := ds.Series
	// the same series once more under the metric names of the repository's tests
	for i, s := range ds.Series {
		name := []string{"http_requests_total", "foo", "bar", "http_requests"}[i%4]
		ls := []core.Label{{N: "__name__", V: name}, {N: "pod", V: "nginx-" + string(rune('1'+i%3))}}
		for _, l := range s.Labels {
			if l.N != "__name__" {
				ls = append(ls, l)
			}
		}
		out = append(out, core.Series{Labels: ls, Samples: s.Samples})
	}
	return out, w
}

func fuzzCorpus(f *testing.F) {
	dir := os.Getenv("VERIF_CORPUS")
	if dir == "" {
		dir = "/verif/corpus"
	}
	if b, err := os.ReadFile(filepath.Join(dir, "queries.json")); err == nil {
		var qs []string
		if json.Unmarshal(b, &qs) == nil {
			for i, q := range qs {
				f.Add(q, uint8(i))
			}
		}
	}
	_, w := fuzzData()
	for i := 0; i < 300; i++ {
		q := rapid.Custom(func(t *rapid.T) string {
			qc := gen.DrawQCtx(t, w)
			g := gen.NewG(t, qc, gen.Profile{MaxDepth: 3, HasHist: true}, gen.S, w)
			s, _, _ := g.Query()
			return s
		}).Example(i + 1)
		f.Add(q, uint8(i))
	}
	for _, vc := range gen.VocabProduct() {
		f.Add(vc.Query, uint8(len(vc.Query)))
	}
	for _, q := range []string{"topk(0, m)", "topk(-1, m)", "topk(NaN, m)", "quantile(NaN, m)", "topk(1e300, m)", "bottomk(9223372036854775808, m)", "sum(-m)", "clamp(m, 10, 2)", "m % 0", "1 / 0", "-Inf", "scalar(m) > bool NaN"} {
		f.Add(q, uint8(7))
	}
}

func fuzzCase(prop, q string, wsel uint8) *core.Case {
	series, w := fuzzData()
	c := &core.Case{Prop: prop, Query: q, Series: series, Start: w.Start, End: w.End, Step: w.Step, Procs: 1 + int(wsel%3)*3, Opt: []string{"none", "default"}[int(wsel>>2)%2]}
	switch wsel % 5 {
	case 0: // instant
		c.End, c.Step = c.Start, 0
	case 1: // 2 steps
		c.End = c.Start + c.Step
	case 2: // 23 steps, 7s
		c.Step = 7000
		c.End = c.Start + 22*c.Step
	}
	return c
}

func fuzzProp(f *testing.F, prop string) {
	fuzzCorpus(f)
	f.Fuzz(func(t *testing.T, q string, wsel uint8) {
		if len(q) > 300 || tooExpensive(q) {
			return
		}
		c := fuzzCase(prop, q, wsel)
		v := runner.Eval(c)
		if v.Bad() {
			if v.Status == "violation" && roundingSensitive(q) && !strings.Contains(v.Detail, "error presence differs") {
				// a value that depends on rounding feeds a discontinuous or ill-conditioned
				// consumer: the generators avoid such queries (DESIGN 3.3), mutation does not;
				// only crashes, hangs and error presence are judged for them
				return
			}
			t.Fatalf("property %s: %s\n%s", prop, v.Status, v.Detail)
		}
	})
}

// FuzzC01 feeds raw query strings to the differential oracle (fallback disabled).
func FuzzC01(f *testing.F) { fuzzProp(f, "C01") }

// FuzzC08 feeds raw query strings to the fallback / path / counter laws.
func FuzzC08(f *testing.F) { fuzzProp(f, "C08") }

// tooExpensive rejects inputs whose evaluation cost is unbounded by construction
// (subqueries with millions of inner steps); they would only measure memory.
func tooExpensive(q string) bool {
	expr, err := parser.ParseExpr(q)
	if err != nil {
		return false
	}
	bad := false
	parser.Inspect(expr, func(n parser.Node, _ []parser.Node) error {
		switch e := n.(type) {
		case *parser.SubqueryExpr:
			step := e.Step
			if step == 0 {
				step = 30 * time.Second
			}
			if e.Range/step > 500 || e.Range > 6*time.Hour {
				bad = true
			}
		case *parser.MatrixSelector:
			if e.Range > 24*time.Hour {
				bad = true
			}
		}
		return nil
	})
	return bad
}

// roundingSensitive is a coarse syntactic version of the generators' stability taint: the
// query contains a producer of rounding-dependent values (aggregations whose algorithm or
// summation order may differ, range functions with divisions) and a consumer that is
// discontinuous or ill-conditioned.
func roundingSensitive(q string) bool {
	expr, err := parser.ParseExpr(q)
	if err != nil {
		return false
	}
	producers := map[string]bool{"avg_over_time": true, "stddev_over_time": true, "stdvar_over_time": true, "deriv": true,
		"predict_linear": true, "rate": true, "increase": true, "delta": true, "irate": true, "idelta": true,
		"histogram_quantile": true, "quantile_over_time": true, "holt_winters": true}
	consumers := map[string]bool{"floor": true, "ceil": true, "round": true, "sgn": true, "clamp": true, "sin": true, "cos": true,
		"tan": true, "asin": true, "acos": true, "acosh": true, "atanh": true, "sqrt": true, "ln": true, "log2": true, "log10": true,
		"changes": true, "resets": true, "sort": true, "sort_desc": true, "absent": true, "timestamp": true}
	var prod, cons bool
	parser.Inspect(expr, func(n parser.Node, _ []parser.Node) error {
		switch e := n.(type) {
		case *parser.Call:
			if producers[e.Func.Name] {
				prod = true
			}
			if consumers[e.Func.Name] {
				cons = true
			}
		case *parser.AggregateExpr:
			switch e.Op {
			case parser.AVG, parser.STDDEV, parser.STDVAR, parser.QUANTILE, parser.SUM:
				prod = true
			case parser.TOPK, parser.BOTTOMK, parser.COUNT_VALUES:
				cons = true
			}
		case *parser.BinaryExpr:
			if e.Op.IsComparisonOperator() {
				cons = true
			}
			switch e.Op {
			case parser.DIV, parser.MOD, parser.POW, parser.ATAN2:
				cons = true
			}
		}
		return nil
	})
	return prod && cons
}
