package props

import (
	"os"
	"testing"

	"pgregory.net/rapid"

	"verifharness/core"
	"verifharness/gen"
)

// planShapes are query templates that together cover every operator kind.
var planShapes = []string{
	"m", "m offset 30s", "rate(m[1m])", "sum_over_time(m[2m])", "sum(m)", "sum by (a) (m)", "avg without (b) (m)",
	"topk(2, m)", "quantile(0.5, m)", "m + n", "m * on (a) group_left () sum by (a) (n)", "m > 1", "m + 1", "2 * m",
	"abs(m)", "clamp_min(m, scalar(n{a=\"1\"}))", "clamp(m, 0, 5)", "-m", "sum(-m)", "m @ 3700", "sum(m @ end()) + n",
	"histogram_quantile(0.9, h_bucket)", "scalar(sum(m))", "vector(time())", "time()", "sum(rate(m[1m])) by (a) / on (a) sum(n) by (a)",
	"max(m) - min(n offset 1m)", "count(m > bool 0)", "bottomk(1, m) + on (a, b, c) topk(1, m)",
	// label handling of matches: filters keep the many-side labels, included labels are merged in
	"m > on (a) group_left (b) n", "m == on (a) group_left (c, b) n", "n < on (b) group_right (a) m", "m != ignoring (b, c) group_left (c) n",
	"m >= on (a) group_left (Z) n", "m + on (a) group_left (b, c) n", "m <= bool on (a) group_left (b) n", "m and on (a) n",
	// @-pinned operands next to unpinned ones, consumed batches-first (aggregations, scalar())
	"sum(m - m @ start())", "sum(m @ 3700 * scalar(n))", "scalar(m @ end() + on () n)", "count(m @ 3700 > n)", "sum(n * on (a) group_left () m @ 3650)",
	"max(rate(m[1m] @ end())) + min(m)", "avg(m @ start() offset 30s) * 2", "sum(abs(m @ 3700)) / count(n)",
}

func drawFaultCase(t *rapid.T) *core.Case {
	wo := gen.WindowOpts{MaxSteps: 25, NoTail: true}
	if rapid.IntRange(0, 3).Draw(t, "longwindow") == 0 {
		// more than three batches: read-ahead buffers fill up and faults land behind them
		wo = gen.WindowOpts{MinSteps: 31, MaxSteps: 70, NoTail: true}
	}
	var c *core.Case
	if rapid.IntRange(0, 2).Draw(t, "shape") == 0 {
		c = drawGeneral(t, gen.Profile{MaxDepth: 3}, wo, gen.DataOpts{Specials: true, MaxSeries: 8, MinSeries: 3, Histogram: true})
	} else {
		c = drawGeneral(t, gen.Profile{MaxDepth: 1}, wo, gen.DataOpts{Specials: true, MaxSeries: 10, MinSeries: 4, Histogram: true, Metrics: []string{"m", "m", "n"}})
		c.Query = rapid.SampledFrom(planShapes).Draw(t, "planshape")
	}
	if rapid.IntRange(0, 7).Draw(t, "manyseries") == 0 {
		// many series per shard, few steps (operators may treat large shards differently)
		w := gen.DrawWindow(t, gen.WindowOpts{MaxSteps: 3, NoTail: true})
		ds := gen.DrawDataset(t, w, gen.DataOpts{MaxSeries: 200, MinSeries: 64, Metrics: []string{"m"}, Lookback: 300000})
		for i := range ds.Series {
			// make the label sets distinct beyond the small label alphabet
			ds.Series[i].Labels = append(ds.Series[i].Labels, core.Label{N: "id", V: string(rune('a'+i%26)) + string(rune('a'+i/26))})
			if len(ds.Series[i].Samples) > 12 {
				ds.Series[i].Samples = ds.Series[i].Samples[len(ds.Series[i].Samples)-12:]
			}
		}
		c.Series = ds.Series
		c.Start, c.End, c.Step = w.Start, w.End, w.Step
		c.Query = rapid.SampledFrom([]string{"m", "sum(m)", "sum by (a) (m)", "rate(m[1m])", "m + m", "topk(3, m)", "-m",
			"max without (id) (m)", "quantile by (b) (0.5, m)", "bottomk by (a) (2, m)", "sum by (id) (m) + on (id) m", "abs(m)"}).Draw(t, "bigq")
		// (many series AND many cores: work that is split by GOMAXPROCS only beyond a size threshold)
		c.Procs = rapid.SampledFrom([]int{1, 2, 4, 8, 12, 16}).Draw(t, "bigprocs")
	}
	if os.Getenv("VERIF_TIER") == "thorough" {
		c.Mode = "thorough"
	}
	if rapid.IntRange(0, 5).Draw(t, "distributed") == 0 {
		// the plan of a distributed engine: coalesce over remote executions, one partition each
		c.NParts = rapid.IntRange(2, 3).Draw(t, "nparts")
		c.Parts = make([]int, len(c.Series))
		for i := range c.Parts {
			c.Parts[i] = rapid.IntRange(0, c.NParts-1).Draw(t, "part")
		}
		c.Note += " dist"
	}
	return c
}

func TestC13(t *testing.T) {
	runProp(t, "C13", func(t *rapid.T) *core.Case {
		if rapid.IntRange(0, 3).Draw(t, "c13mode") == 0 {
			// extreme parameters and degenerate data
			c := drawGeneral(t, gen.Profile{MaxDepth: 2, Focus: "agg"}, gen.WindowOpts{}, gen.DataOpts{Specials: true, MaxSeries: 4})
			switch rapid.IntRange(0, 4).Draw(t, "degenerate") {
			case 0:
				c.Series = nil
			case 1:
				for i := range c.Series {
					c.Series[i].Samples = nil
				}
			case 2:
				for i := range c.Series {
					if len(c.Series[i].Samples) > 1 {
						c.Series[i].Samples = c.Series[i].Samples[:1]
					}
				}
			case 3:
				for i := range c.Series {
					for j := range c.Series[i].Samples {
						if j%2 == 0 {
							c.Series[i].Samples[j].V = core.Stale()
						} else {
							c.Series[i].Samples[j].V = core.F(nan())
						}
					}
				}
			}
			c.Mode = "extreme"
			return c
		}
		c := drawFaultCase(t)
		c.Note += " " + rapid.SampledFrom([]string{"", "", "panic=str", "panic=err"}).Draw(t, "panicvalue")
		return c
	})
}

func TestC15(t *testing.T) {
	runProp(t, "C15", func(t *rapid.T) *core.Case {
		c := drawFaultCase(t)
		if rapid.IntRange(0, 2).Draw(t, "pair") == 0 {
			c.Fault = &core.Fault{Kind: "pair", K: rapid.IntRange(0, 50).Draw(t, "pairgap")}
		}
		return c
	})
}

func TestC17(t *testing.T) {
	runProp(t, "C17", func(t *rapid.T) *core.Case {
		c := drawFaultCase(t)
		c.Fallback = rapid.IntRange(0, 4).Draw(t, "fallback") == 0
		if rapid.IntRange(0, 2).Draw(t, "honourctx") == 0 {
			c.Note += " honourctx"
		}
		return c
	})
}

func TestC14(t *testing.T) {
	runProp(t, "C14", func(t *rapid.T) *core.Case {
		c := drawFaultCase(t)
		if c.Step > 0 && rapid.IntRange(0, 2).Draw(t, "longer") == 0 {
			// more batches than the exchange buffers hold
			c.End = c.Start + int64(rapid.IntRange(31, 70).Draw(t, "moresteps"))*c.Step
		}
		if rapid.IntRange(0, 3).Draw(t, "deadline") == 0 {
			c.Note += " deadline"
		}
		if rapid.IntRange(0, 1).Draw(t, "honourctx") == 0 {
			// a storage that fails Querier()/Select with the context's error once it is done
			c.Note += " honourctx"
		}
		if rapid.IntRange(0, 3).Draw(t, "delayscript") == 0 && len(c.Series) < 30 {
			c.Delay = uint64(rapid.IntRange(1, 1<<20).Draw(t, "delay"))
		}
		return c
	})
}

// TestC14Race is the C14 sweep in an executor built with the race detector.
func TestC14Race(t *testing.T) {
	runProp(t, "C14", func(t *rapid.T) *core.Case {
		c := drawFaultCase(t)
		if len(c.Series) > 30 {
			c.Series = c.Series[:30]
		}
		c.Mode = "race"
		return c
	})
}
