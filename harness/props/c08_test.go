package props

import (
	"os"
	"strconv"
	"testing"

	"pgregory.net/rapid"

	"verifharness/core"
	"verifharness/gen"
)

func vocabCase(t *rapid.T, vc gen.VocabCase, instant bool) *core.Case {
	wo := gen.WindowOpts{ForceInstant: instant, ForceRange: !instant, NoTail: true}
	w := gen.DrawWindow(t, wo)
	cfg := gen.DrawConfig(t)
	ds := gen.DrawDataset(t, w, gen.DataOpts{Specials: true, Histogram: true, MaxSeries: 8, Lookback: cfg.EffLookback()})
	c := &core.Case{Query: vc.Query, Series: ds.Series, Start: w.Start, End: w.End, Step: w.Step,
		Mode: vc.Position.Name, Note: vc.Construct.Name}
	cfg.Apply(c)
	return c
}

func TestC08(t *testing.T) {
	prod := gen.VocabProduct()
	runProp(t, "C08", func(t *rapid.T) *core.Case {
		vc := prod[rapid.IntRange(0, len(prod)-1).Draw(t, "vocab")]
		instant := rapid.Bool().Draw(t, "instant")
		return vocabCase(t, vc, instant)
	})
}

// TestC08All enumerates the complete construct x position x {instant, range}
// product (sharded over workers); datasets come from the rapid generators
// seeded by VERIF_SEED.
func TestC08All(t *testing.T) {
	prod := gen.VocabProduct()
	w, _ := strconv.Atoi(os.Getenv("VERIF_WORKER"))
	nw, _ := strconv.Atoi(os.Getenv("VERIF_WORKERS"))
	if nw == 0 {
		nw = 1
	}
	seed, _ := strconv.Atoi(os.Getenv("VERIF_SEED"))
	reps := 2
	if os.Getenv("VERIF_TIER") == "thorough" {
		reps = 6
	}
	runEnum(t, "C08", func(yield func(*core.Case) bool) {
		idx := 0
		for _, vc := range prod {
			for _, instant := range []bool{true, false} {
				for r := 0; r < reps; r++ {
					idx++
					if idx%nw != w {
						continue
					}
					vc, instant := vc, instant
					c := rapid.Custom(func(t *rapid.T) *core.Case { return vocabCase(t, vc, instant) }).Example(seed*7919 + idx)
					if !yield(c) {
						return
					}
				}
			}
		}
	})
}
