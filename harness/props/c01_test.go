package props

import (
	"testing"

	"pgregory.net/rapid"

	"verifharness/core"
	"verifharness/gen"
)

// drawGeneral draws a (query, dataset, window, config) tuple from the full native grammar.
func drawGeneral(t *rapid.T, p gen.Profile, wo gen.WindowOpts, do gen.DataOpts) *core.Case {
	w := gen.DrawWindow(t, wo)
	q := gen.DrawQCtx(t, w)
	cfg := gen.DrawConfig(t)
	do.Lookback = cfg.EffLookback()
	do.Offsets = q.Offsets
	do.Ranges = q.Ranges
	ds := gen.DrawDataset(t, w, do)
	p.HasHist = do.Histogram
	g := gen.NewG(t, q, p, ds.Cls, w)
	query, _, _ := g.Query()
	c := &core.Case{
		Query: query, Series: ds.Series,
		Start: w.Start, End: w.End, Step: w.Step,
	}
	cfg.Apply(c)
	return c
}

func TestC01(t *testing.T) {
	runProp(t, "C01", func(t *rapid.T) *core.Case {
		return drawGeneral(t, gen.Profile{MaxDepth: 4, Nameless: true}, gen.WindowOpts{Long: true}, gen.DataOpts{Specials: true, Histogram: true, Twins: true, Big: true})
	})
}
