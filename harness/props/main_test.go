package props

import (
	"encoding/json"
	"fmt"
	"os"
	"path/filepath"
	"sort"
	"strconv"
	"strings"
	"sync"
	"testing"
	"time"

	"pgregory.net/rapid"

	"verifharness/core"
	"verifharness/runner"
	"verifharness/xproc"
)

func TestMain(m *testing.M) {
	if os.Getenv("VERIF_EXECUTOR") == "1" {
		xproc.Serve(runner.Eval)
		os.Exit(0)
	}
	code := m.Run()
	if child != nil {
		child.Close()
	}
	flushStats()
	os.Exit(code)
}

var child *xproc.Child

func getChild() *xproc.Child {
	if child == nil {
		child = &xproc.Child{Args: []string{os.Args[0], "-test.run=^$"}}
	}
	return child
}

func caseTimeout() time.Duration {
	if s := os.Getenv("VERIF_CASE_TIMEOUT"); s != "" {
		if d, err := time.ParseDuration(s); err == nil {
			return d
		}
	}
	return 60 * time.Second
}

// ---- statistics / evidence -------------------------------------------------------

type failure struct {
	Case    *core.Case   `json:"case"`
	Verdict core.Verdict `json:"verdict"`
	Replay  string       `json:"replay"`
	Flaky   bool         `json:"flaky,omitempty"`
}

type summary struct {
	Prop        string            `json:"prop"`
	Evaluations int               `json:"evaluations"`
	EngineRuns  int               `json:"engine_runs"`
	Status      map[string]int    `json:"status"`
	Features    map[string]int    `json:"features"`
	Known       map[string]int    `json:"known"`
	Nontrivial  []string          `json:"nontrivial_hashes"`
	Samples     []json.RawMessage `json:"samples"`
	Failures    []failure         `json:"failures"`
	Infra       []string          `json:"infra"`
	ChildStarts int               `json:"child_starts"`
	Extra       map[string]int    `json:"extra,omitempty"`
}

var (
	statMu  sync.Mutex
	stat    = summary{Status: map[string]int{}, Features: map[string]int{}, Known: map[string]int{}, Extra: map[string]int{}}
	ntSet   = map[uint64]bool{}
	lastBad *failure

	sampleScores []int
)

func record(c *core.Case, v core.Verdict) {
	statMu.Lock()
	defer statMu.Unlock()
	stat.Prop = c.Prop
	stat.Evaluations++
	stat.EngineRuns += v.Evals
	stat.Status[v.Status]++
	for _, f := range v.Features {
		stat.Features[f]++
	}
	if v.Known != "" {
		stat.Known[v.Known]++
	}
	if v.Status == "skip" {
		k := "skip:" + v.Detail
		if len(k) > 60 {
			k = k[:60]
		}
		stat.Extra[k]++
		if stat.Extra[k] <= 2 {
			stat.Extra["skipq:"+c.Query]++
		}
	}
	if v.Status == "infra" && len(stat.Infra) < 5 {
		stat.Infra = append(stat.Infra, v.Detail)
	}
	if v.Nontrivial && v.Status == "ok" {
		h := c.Hash()
		if !ntSet[h] {
			ntSet[h] = true
			// keep six samples, preferring later, structurally richer cases over the first ones seen
			score := len(c.Query) + 40*len(c.Hist)
			if len(stat.Samples) < 6 {
				stat.Samples = append(stat.Samples, sampleOf(c))
				sampleScores = append(sampleScores, score)
			} else {
				lo := 0
				for i := range sampleScores {
					if sampleScores[i] < sampleScores[lo] {
						lo = i
					}
				}
				if score > sampleScores[lo] && score < 400 {
					stat.Samples[lo] = sampleOf(c)
					sampleScores[lo] = score
				}
			}
		}
	}
}

// sampleOf renders a case for the evidence file, truncating sample lists.
func sampleOf(c *core.Case) json.RawMessage {
	cc := *c
	cc.Series = nil
	for i, s := range c.Series {
		if i >= 4 {
			break
		}
		t := s
		if len(t.Samples) > 6 {
			t.Samples = t.Samples[:6]
		}
		cc.Series = append(cc.Series, t)
	}
	cc.Note = fmt.Sprintf("%d series in full case (sample lists truncated)", len(c.Series))
	b, _ := json.Marshal(&cc)
	return b
}

func flushStats() {
	out := os.Getenv("VERIF_OUT")
	if out == "" {
		return
	}
	statMu.Lock()
	defer statMu.Unlock()
	for h := range ntSet {
		stat.Nontrivial = append(stat.Nontrivial, strconv.FormatUint(h, 16))
	}
	sort.Strings(stat.Nontrivial)
	if child != nil {
		stat.ChildStarts = child.Starts
	}
	b, _ := json.Marshal(&stat)
	os.WriteFile(out, b, 0o644)
}

func replayDir() string {
	if d := os.Getenv("VERIF_REPLAY_DIR"); d != "" {
		return d
	}
	return "/verif/replays"
}

func saveFailure(f *failure) {
	dir := filepath.Join(replayDir(), f.Case.Prop)
	os.MkdirAll(dir, 0o755)
	name := fmt.Sprintf("%016x.json", f.Case.Hash())
	p := filepath.Join(dir, name)
	type file struct {
		Case    *core.Case   `json:"case"`
		Verdict core.Verdict `json:"verdict"`
		Flaky   bool         `json:"flaky,omitempty"`
	}
	b, _ := json.MarshalIndent(file{f.Case, f.Verdict, f.Flaky}, "", " ")
	os.WriteFile(p, b, 0o644)
	f.Replay = p
}

// runProp drives one property: draw a case, run it in the executor child, record.
func runProp(t *testing.T, id string, draw func(*rapid.T) *core.Case) {
	t.Cleanup(func() {
		statMu.Lock()
		f := lastBad
		statMu.Unlock()
		if t.Failed() && f != nil {
			saveFailure(f)
			statMu.Lock()
			stat.Failures = append(stat.Failures, *f)
			statMu.Unlock()
			fmt.Printf("FAILURE property=%s replay=%s\n%s\n", id, f.Replay, f.Verdict.Detail)
		}
	})
	rapid.Check(t, func(rt *rapid.T) {
		c := draw(rt)
		c.Prop = id
		t0 := time.Now()
		v := getChild().Run(c, caseTimeout())
		noteDuration(time.Since(t0))
		record(c, v)
		if v.Status == "crash" || v.Status == "hang" {
			v.Detail = fmt.Sprintf("query: %s\nwindow: start=%d end=%d step=%d (steps=%d) procs=%d series=%d fault=%v\n%s", c.Query, c.Start, c.End, c.Step, c.NumSteps(), c.Procs, len(c.Series), c.Fault, v.Detail)
		}
		if v.Bad() {
			statMu.Lock()
			lastBad = &failure{Case: c, Verdict: v}
			statMu.Unlock()
			rt.Fatalf("property %s failed", id)
		}
	})
}

// TestReplay re-runs a saved case without any generator.
func TestReplay(t *testing.T) {
	p := os.Getenv("VERIF_REPLAY")
	if p == "" {
		t.Skip("VERIF_REPLAY not set")
	}
	b, err := os.ReadFile(p)
	if err != nil {
		t.Fatal(err)
	}
	var f struct {
		Case  *core.Case `json:"case"`
		Flaky bool       `json:"flaky"`
	}
	if err := json.Unmarshal(b, &f); err != nil || f.Case == nil {
		t.Fatalf("bad replay file: %v", err)
	}
	n := 1
	if f.Flaky {
		n = 20
	}
	if s := os.Getenv("VERIF_REPLAY_N"); s != "" {
		n, _ = strconv.Atoi(s)
	}
	for i := 0; i < n; i++ {
		v := getChild().Run(f.Case, caseTimeout())
		record(f.Case, v)
		fmt.Printf("REPLAY status=%s known=%s\n%s\n", v.Status, v.Known, strings.TrimSpace(v.Detail))
		if v.Bad() {
			statMu.Lock()
			stat.Failures = append(stat.Failures, failure{Case: f.Case, Verdict: v, Replay: p})
			statMu.Unlock()
			t.Fail()
			return
		}
	}
}

// runEnum drives an enumerated (non-random) check: every yielded case is executed;
// the first failure is saved and fails the test.
func runEnum(t *testing.T, id string, each func(yield func(*core.Case) bool)) {
	each(func(c *core.Case) bool {
		c.Prop = id
		v := getChild().Run(c, caseTimeout())
		record(c, v)
		if v.Status == "crash" || v.Status == "hang" {
			v.Detail = fmt.Sprintf("query: %s\n%s", c.Query, v.Detail)
		}
		if v.Bad() {
			f := &failure{Case: c, Verdict: v}
			saveFailure(f)
			statMu.Lock()
			stat.Failures = append(stat.Failures, *f)
			statMu.Unlock()
			fmt.Printf("FAILURE property=%s replay=%s\n%s\n", id, f.Replay, v.Detail)
			t.Fail()
			return len(stat.Failures) < 5
		}
		return true
	})
}

func nan() float64 { var z float64; return z / z }

// noteDuration keeps the longest case duration (ms) for the evidence file: it shows
// how far the per-case watchdog is from ordinary executions.
func noteDuration(d time.Duration) {
	statMu.Lock()
	if ms := int(d / time.Millisecond); ms > stat.Extra["max_case_ms"] {
		stat.Extra["max_case_ms"] = ms
	}
	statMu.Unlock()
}
