package props

import (
	"testing"

	"pgregory.net/rapid"

	"verifharness/core"
	"verifharness/gen"
)

func TestC02(t *testing.T) {
	runProp(t, "C02", func(t *rapid.T) *core.Case {
		wo := gen.WindowOpts{NoTail: true}
		c := drawGeneral(t, gen.Profile{MaxDepth: 1, Focus: "selector", NoScalarFn: true}, wo,
			gen.DataOpts{Specials: true, MaxSeries: 40, Big: true})
		// identity-like contexts
		switch rapid.IntRange(0, 5).Draw(t, "wrap") {
		case 1:
			c.Query = "(" + c.Query + ")"
		case 2:
			c.Query = "+(" + c.Query + ")"
		}
		return c
	})
}

func TestC03(t *testing.T) {
	runProp(t, "C03", func(t *rapid.T) *core.Case {
		return drawGeneral(t, gen.Profile{MaxDepth: 1, Focus: "rangefn", NoScalarFn: true}, gen.WindowOpts{},
			gen.DataOpts{Specials: true, MaxSeries: 16})
	})
}

func TestC04(t *testing.T) {
	runProp(t, "C04", func(t *rapid.T) *core.Case {
		return drawGeneral(t, gen.Profile{MaxDepth: 3, Focus: "agg", NoBinary: true, Nameless: true}, gen.WindowOpts{},
			gen.DataOpts{Specials: true, MaxSeries: 14, Twins: true})
	})
}

func TestC05(t *testing.T) {
	runProp(t, "C05", func(t *rapid.T) *core.Case {
		return drawGeneral(t, gen.Profile{MaxDepth: 3, Focus: "binary", Nameless: true}, gen.WindowOpts{},
			gen.DataOpts{Specials: true, MaxSeries: 10, Twins: true})
	})
}

func TestC06(t *testing.T) {
	runProp(t, "C06", func(t *rapid.T) *core.Case {
		p := gen.Profile{MaxDepth: 3}
		switch rapid.IntRange(0, 4).Draw(t, "c06focus") {
		case 0:
			p.Focus = "func"
		case 1:
			p.Focus = "unary"
		case 2:
			p.Focus = "vector"
		case 3:
			p.Focus = "hist"
		default:
			p.Focus = "scalar"
		}
		p.Nameless = true
		return drawGeneral(t, p, gen.WindowOpts{}, gen.DataOpts{Specials: true, MaxSeries: 8, Histogram: true, Twins: true})
	})
}

func TestC07(t *testing.T) {
	runProp(t, "C07", func(t *rapid.T) *core.Case {
		p := gen.Profile{MaxDepth: 3, NoStartEnd: true, Nameless: true}
		if rapid.IntRange(0, 3).Draw(t, "c07focus") == 0 {
			// state that operators keep per batch position: aggregation tables and their per-step parameters
			p.Focus, p.MaxDepth, p.VaryParams = "agg", 2, true
		}
		c := drawGeneral(t, p, gen.WindowOpts{ForceRange: true, Long: true},
			gen.DataOpts{Specials: true, MaxSeries: 10, Histogram: true, Twins: true})
		n := c.NumSteps()
		a := rapid.IntRange(0, n-1).Draw(t, "sub0")
		b := rapid.IntRange(a, n-1).Draw(t, "sub1")
		c.Sub = [2]int{a, b}
		return c
	})
}
