package props

import (
	"testing"

	"pgregory.net/rapid"

	"verifharness/core"
	"verifharness/gen"
)

func TestC11(t *testing.T) {
	runProp(t, "C11", func(t *rapid.T) *core.Case {
		c := drawGeneral(t, gen.Profile{MaxDepth: 3}, gen.WindowOpts{}, gen.DataOpts{Specials: true, MaxSeries: 40, Histogram: true})
		c.Shuffle = uint64(rapid.IntRange(1, 1<<30).Draw(t, "perm"))
		// >=3 distinct GOMAXPROCS incl. 1 and an odd shard count
		c.Procs = 1
		c.Procs2 = []int{rapid.SampledFrom([]int{6, 7, 10, 14}).Draw(t, "oddshards"), rapid.IntRange(2, 16).Draw(t, "procsx")}
		c.Delay = uint64(rapid.IntRange(1, 1<<30).Draw(t, "delay"))
		n := rapid.IntRange(0, 6).Draw(t, "nextra")
		for i := 0; i < n; i++ {
			ls := []core.Label{{N: "__name__", V: rapid.SampledFrom([]string{"zz", "mm", "unrelated"}).Draw(t, "xname")}}
			for _, ln := range []string{"a", "b", "c"} {
				if rapid.Bool().Draw(t, "xhas") {
					ls = append(ls, core.Label{N: ln, V: rapid.SampledFrom([]string{"1", "2", "3", "x" + string(rune('a'+i))}).Draw(t, "xval")})
				}
			}
			ls = append(ls, core.Label{N: "uniq", V: string(rune('a' + i))})
			var smp []core.Sample
			for ts := c.Start - 600000; ts <= c.End; ts += 15000 {
				if ts >= 0 {
					smp = append(smp, core.Sample{T: ts, V: core.F(float64(i) + 0.25)})
				}
				if len(smp) > 200 {
					break
				}
			}
			c.Extra = append(c.Extra, core.Series{Labels: ls, Samples: smp})
		}
		return c
	})
}

func TestC16(t *testing.T) {
	runProp(t, "C16", func(t *rapid.T) *core.Case {
		return drawGeneral(t, gen.Profile{MaxDepth: 4}, gen.WindowOpts{}, gen.DataOpts{Specials: true, MaxSeries: 8, Histogram: true})
	})
}

func TestC19(t *testing.T) {
	runProp(t, "C19", func(t *rapid.T) *core.Case {
		do := gen.DataOpts{Specials: true, MaxSeries: 10, Histogram: true}
		if rapid.IntRange(0, 2).Draw(t, "extreme") == 0 {
			do.Profile = "extreme"
		}
		c := drawGeneral(t, gen.Profile{MaxDepth: 4, Nameless: true}, gen.WindowOpts{}, do)
		c.Fallback = rapid.IntRange(0, 5).Draw(t, "fallback") == 0
		return c
	})
}

func TestC18(t *testing.T) {
	runProp(t, "C18", func(t *rapid.T) *core.Case {
		c := drawGeneral(t, gen.Profile{MaxDepth: 4}, gen.WindowOpts{}, gen.DataOpts{Specials: true, MaxSeries: 12, Histogram: true})
		c.Delay = uint64(rapid.IntRange(0, 1<<20).Draw(t, "delay"))
		return c
	})
}
