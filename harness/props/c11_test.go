package props

import (
	"strings"
	"testing"

	"pgregory.net/rapid"

	"verifharness/core"
	"verifharness/gen"
)

func TestC11(t *testing.T) {
	runProp(t, "C11", func(t *rapid.T) *core.Case {
		c := drawGeneral(t, gen.Profile{MaxDepth: 3, Nameless: true}, gen.WindowOpts{}, gen.DataOpts{Specials: true, MaxSeries: 40, Histogram: true, Big: true, Twins: true})
		c.Shuffle = uint64(rapid.IntRange(1, 1<<30).Draw(t, "perm"))
		// >=3 distinct GOMAXPROCS incl. 1 and an odd shard count
		c.Procs = 1
		c.Procs2 = []int{rapid.SampledFrom([]int{6, 7, 10, 14}).Draw(t, "oddshards"), rapid.IntRange(2, 16).Draw(t, "procsx")}
		c.Delay = uint64(rapid.IntRange(1, 1<<30).Draw(t, "delay"))
		n := rapid.IntRange(0, 6).Draw(t, "nextra")
		for i := 0; i < n; i++ {
			ls := []core.Label{{N: "__name__", V: rapid.SampledFrom([]string{"zz", "mm", "unrelated"}).Draw(t, "xname")}}
			for _, ln := range []string{"a", "b", "c"} {
				if rapid.Bool().Draw(t, "xhas") {
					ls = append(ls, core.Label{N: ln, V: rapid.SampledFrom([]string{"1", "2", "3", "x" + string(rune('a'+i))}).Draw(t, "xval")})
				}
			}
			ls = append(ls, core.Label{N: "uniq", V: string(rune('a' + i))})
			var smp []core.Sample
			for ts := c.Start - 600000; ts <= c.End; ts += 15000 {
				if ts >= 0 {
					smp = append(smp, core.Sample{T: ts, V: core.F(float64(i) + 0.25)})
				}
				if len(smp) > 200 {
					break
				}
			}
			c.Extra = append(c.Extra, core.Series{Labels: ls, Samples: smp})
		}
		return c
	})
}

// c16Contexts put one and the same selector under different enclosing functions /
// groupings, so that selects which differ only in their hints meet in one query.
var c16Contexts = []string{
	"sum(%s)", "sum(-%s)", "sum((%s))", "sum without () (%s)", "sum by (a) (%s)", "sum without (a) (%s)", "sum by (a, b) (%s)",
	"max(%s)", "max(-%s)", "count(%s)", "sum(abs(%s))", "sum(%s @ end())", "sum(%s offset 1m)", "avg by (a) (%s)", "sum(+%s)",
	"sum(rate(%s[1m]))", "sum(count_over_time(%s[1m]))", "sum by (a) (rate(%s[1m]))", "topk(1, sum(%s))", "sum(%s * 2)",
}

func TestC16(t *testing.T) {
	runProp(t, "C16", func(t *rapid.T) *core.Case {
		c := drawGeneral(t, gen.Profile{MaxDepth: 4, Nameless: true}, gen.WindowOpts{}, gen.DataOpts{Specials: true, MaxSeries: 8, Histogram: true, Twins: true})
		if rapid.IntRange(0, 2).Draw(t, "twinsel") == 0 {
			sel := rapid.SampledFrom([]string{"m", "n", `m{a="1"}`, `m{a=~"1|2",b!=""}`, `k{c!~"3"}`}).Draw(t, "sel")
			n := rapid.IntRange(2, 3).Draw(t, "nctx")
			q := ""
			for i := 0; i < n; i++ {
				ctx := rapid.SampledFrom(c16Contexts).Draw(t, "ctx")
				part := strings.Replace(ctx, "%s", sel, 1)
				if i == 0 {
					q = part
				} else {
					q += rapid.SampledFrom([]string{" + ", " / on () ", " - on (a) group_left () "}).Draw(t, "glue") + part
				}
			}
			c.Query = q
		} else if rapid.IntRange(0, 3).Draw(t, "mergepair") == 0 {
			// rewritten selectors with modifiers: the hinted range must stay sufficient
			c.Query = drawMergePair(t, c)
		}
		return c
	})
}

func TestC19(t *testing.T) {
	runProp(t, "C19", func(t *rapid.T) *core.Case {
		do := gen.DataOpts{Specials: true, MaxSeries: 10, Histogram: true, Twins: true}
		if rapid.IntRange(0, 2).Draw(t, "extreme") == 0 {
			do.Profile = "extreme"
		}
		c := drawGeneral(t, gen.Profile{MaxDepth: 4, Nameless: true}, gen.WindowOpts{}, do)
		c.Fallback = rapid.IntRange(0, 5).Draw(t, "fallback") == 0
		return c
	})
}

func TestC18(t *testing.T) {
	runProp(t, "C18", func(t *rapid.T) *core.Case {
		c := drawGeneral(t, gen.Profile{MaxDepth: 4, Nameless: true}, gen.WindowOpts{}, gen.DataOpts{Specials: true, MaxSeries: 12, Histogram: true, Twins: true})
		c.Delay = uint64(rapid.IntRange(0, 1<<20).Draw(t, "delay"))
		return c
	})
}
