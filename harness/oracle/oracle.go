// Package oracle holds result normalisation, comparison and the well-formedness
// predicate.
package oracle

import (
	"fmt"
	"math"
	"sort"
	"strings"

	"github.com/prometheus/prometheus/model/labels"
	"github.com/prometheus/prometheus/model/value"
	"github.com/prometheus/prometheus/promql"
	"github.com/prometheus/prometheus/promql/parser"
)

type Point struct {
	T int64
	V float64
}

type RSeries struct {
	Labels labels.Labels
	Points []Point
}

// Res is a normalised, deep-copied query result.
type Res struct {
	Err    error
	Type   parser.ValueType
	Series []RSeries // vector: one point each; scalar: one unlabeled series with one point
	Str    string
}

// FromResult deep-copies a promql.Result.
func FromResult(r *promql.Result) *Res {
	out := &Res{}
	if r == nil {
		out.Err = fmt.Errorf("nil result")
		return out
	}
	if r.Err != nil {
		out.Err = r.Err
		return out
	}
	switch v := r.Value.(type) {
	case promql.Matrix:
		out.Type = parser.ValueTypeMatrix
		for _, s := range v {
			rs := RSeries{Labels: s.Metric.Copy()}
			for _, p := range s.Points {
				rs.Points = append(rs.Points, Point{p.T, p.V})
			}
			out.Series = append(out.Series, rs)
		}
	case promql.Vector:
		out.Type = parser.ValueTypeVector
		for _, s := range v {
			out.Series = append(out.Series, RSeries{Labels: s.Metric.Copy(), Points: []Point{{s.T, s.V}}})
		}
	case promql.Scalar:
		out.Type = parser.ValueTypeScalar
		out.Series = []RSeries{{Points: []Point{{v.T, v.V}}}}
	case promql.String:
		out.Type = parser.ValueTypeString
		out.Str = v.V
		out.Series = []RSeries{{Points: []Point{{v.T, 0}}}}
	case nil:
		out.Type = parser.ValueTypeNone
	default:
		out.Err = fmt.Errorf("unknown value type %T", r.Value)
	}
	return out
}

func (r *Res) Empty() bool {
	if r.Err != nil {
		return false
	}
	for _, s := range r.Series {
		if len(s.Points) > 0 {
			return false
		}
	}
	return true
}

func (r *Res) NumPoints() int {
	n := 0
	for _, s := range r.Series {
		n += len(s.Points)
	}
	return n
}

func (r *Res) String() string {
	if r.Err != nil {
		return "ERR(" + r.Err.Error() + ")"
	}
	var sb strings.Builder
	sb.WriteString(string(r.Type))
	sb.WriteString("[")
	ss := append([]RSeries(nil), r.Series...)
	sort.SliceStable(ss, func(i, j int) bool { return labels.Compare(ss[i].Labels, ss[j].Labels) < 0 })
	for i, s := range ss {
		if i > 0 {
			sb.WriteString("; ")
		}
		if i >= 12 {
			fmt.Fprintf(&sb, "... %d more", len(ss)-i)
			break
		}
		sb.WriteString(s.Labels.String())
		sb.WriteString(" ")
		for j, p := range s.Points {
			if j >= 40 {
				fmt.Fprintf(&sb, " ...%d more", len(s.Points)-j)
				break
			}
			fmt.Fprintf(&sb, " %s@%d", fv(p.V), p.T)
		}
	}
	sb.WriteString("]")
	return sb.String()
}

func fv(v float64) string {
	if value.IsStaleNaN(v) {
		return "STALE"
	}
	return fmt.Sprintf("%g", v)
}

// Tol describes the value tolerance.
type Tol struct {
	Rel   float64
	Scale float64 // absolute floor = Rel*Scale
}

func DefaultTol(scale float64) Tol { return Tol{Rel: 1e-9, Scale: scale} }

func (t Tol) eq(a, b float64) bool {
	if math.IsNaN(a) || math.IsNaN(b) {
		return math.IsNaN(a) && math.IsNaN(b) && value.IsStaleNaN(a) == value.IsStaleNaN(b)
	}
	if math.IsInf(a, 0) || math.IsInf(b, 0) {
		return a == b
	}
	if a == b {
		return true
	}
	d := math.Abs(a - b)
	m := math.Max(math.Abs(a), math.Abs(b))
	return d <= t.Rel*m+t.Rel*t.Scale
}

// Equal compares two results; it returns "" when they are equal, otherwise a
// description of the first difference. Error messages are not compared, only
// error presence. Series order is not compared (see WellFormed for that).
func Equal(a, b *Res, tol Tol) string {
	if (a.Err != nil) != (b.Err != nil) {
		return fmt.Sprintf("error presence differs: %v vs %v", errs(a), errs(b))
	}
	if a.Err != nil {
		return ""
	}
	if a.Type != b.Type {
		return fmt.Sprintf("value type differs: %s vs %s", a.Type, b.Type)
	}
	if a.Type == parser.ValueTypeString && a.Str != b.Str {
		return fmt.Sprintf("string differs: %q vs %q", a.Str, b.Str)
	}
	am, dupA := index(a)
	bm, dupB := index(b)
	if dupA != "" || dupB != "" {
		if dupA != dupB {
			return fmt.Sprintf("duplicate series: %q vs %q", dupA, dupB)
		}
	}
	for k, as := range am {
		bs, ok := bm[k]
		if !ok {
			if len(as.Points) == 0 {
				continue
			}
			return fmt.Sprintf("series %s only in first (%d points, first %s@%d)", k, len(as.Points), fv(as.Points[0].V), as.Points[0].T)
		}
		if len(as.Points) != len(bs.Points) {
			return fmt.Sprintf("series %s: %d vs %d points: %s vs %s", k, len(as.Points), len(bs.Points), pts(as.Points), pts(bs.Points))
		}
		for i := range as.Points {
			if as.Points[i].T != bs.Points[i].T {
				return fmt.Sprintf("series %s: point %d timestamp %d vs %d", k, i, as.Points[i].T, bs.Points[i].T)
			}
			if !tol.eq(as.Points[i].V, bs.Points[i].V) {
				return fmt.Sprintf("series %s: t=%d value %s vs %s", k, as.Points[i].T, fv(as.Points[i].V), fv(bs.Points[i].V))
			}
		}
	}
	for k, bs := range bm {
		if _, ok := am[k]; !ok {
			if len(bs.Points) == 0 {
				continue
			}
			return fmt.Sprintf("series %s only in second (%d points, first %s@%d)", k, len(bs.Points), fv(bs.Points[0].V), bs.Points[0].T)
		}
	}
	return ""
}

func pts(p []Point) string {
	var sb strings.Builder
	for i, x := range p {
		if i >= 40 {
			sb.WriteString(" ...")
			break
		}
		fmt.Fprintf(&sb, " %s@%d", fv(x.V), x.T)
	}
	return sb.String()
}

func errs(r *Res) string {
	if r.Err == nil {
		return "<no error: " + r.String() + ">"
	}
	return "error(" + r.Err.Error() + ")"
}

func index(r *Res) (map[string]RSeries, string) {
	m := make(map[string]RSeries, len(r.Series))
	dup := ""
	for _, s := range r.Series {
		k := s.Labels.String()
		if _, ok := m[k]; ok {
			dup = k
		}
		m[k] = s
	}
	return m, dup
}

// Window is the evaluation window of a query (Step==0: instant at Start).
type Window struct {
	Start, End, Step int64
}

// WellFormed is the C19 predicate. exprType is the type of the parsed
// expression. It returns "" if r is well-formed.
func WellFormed(r *Res, exprType parser.ValueType, w Window) string {
	if r.Err != nil {
		return ""
	}
	instant := w.Step == 0
	if instant {
		if r.Type != exprType {
			return fmt.Sprintf("instant result type %s, expression type %s", r.Type, exprType)
		}
	} else if r.Type != parser.ValueTypeMatrix {
		return fmt.Sprintf("range result type %s, want matrix", r.Type)
	}
	seen := map[string]bool{}
	for i, s := range r.Series {
		if msg := labelsOK(s.Labels); msg != "" {
			return fmt.Sprintf("series %s: %s", s.Labels, msg)
		}
		k := s.Labels.String()
		if seen[k] {
			return fmt.Sprintf("duplicate label set %s", k)
		}
		seen[k] = true
		for j, p := range s.Points {
			if value.IsStaleNaN(p.V) {
				return fmt.Sprintf("series %s: staleness marker at t=%d", k, p.T)
			}
			if instant {
				if exprType != parser.ValueTypeMatrix && p.T != w.Start {
					return fmt.Sprintf("series %s: sample stamped %d, evaluation time %d", k, p.T, w.Start)
				}
			} else {
				if p.T < w.Start || p.T > w.End {
					return fmt.Sprintf("series %s: point t=%d outside [%d,%d]", k, p.T, w.Start, w.End)
				}
				if (p.T-w.Start)%w.Step != 0 {
					return fmt.Sprintf("series %s: point t=%d off the step grid (start %d step %d)", k, p.T, w.Start, w.Step)
				}
			}
			if j > 0 && p.T <= s.Points[j-1].T {
				return fmt.Sprintf("series %s: timestamps not strictly increasing (%d after %d)", k, p.T, s.Points[j-1].T)
			}
		}
		if r.Type == parser.ValueTypeMatrix && !instant {
			if len(s.Points) == 0 {
				return fmt.Sprintf("series %s: empty series in range result", k)
			}
			if i > 0 && labels.Compare(r.Series[i-1].Labels, s.Labels) > 0 {
				return fmt.Sprintf("matrix not sorted: %s before %s", r.Series[i-1].Labels, s.Labels)
			}
		}
		if r.Type == parser.ValueTypeVector && len(s.Points) != 1 {
			return fmt.Sprintf("vector sample %s with %d points", k, len(s.Points))
		}
	}
	if r.Type == parser.ValueTypeScalar && (len(r.Series) != 1 || len(r.Series[0].Points) != 1) {
		return "scalar result without exactly one value"
	}
	return ""
}

func labelsOK(ls labels.Labels) string {
	for i, l := range ls {
		if l.Value == "" {
			return fmt.Sprintf("empty-valued label %q", l.Name)
		}
		if i > 0 {
			if ls[i-1].Name == l.Name {
				return fmt.Sprintf("repeated label name %q", l.Name)
			}
			if ls[i-1].Name > l.Name {
				return fmt.Sprintf("labels not sorted by name (%q before %q)", ls[i-1].Name, l.Name)
			}
		}
	}
	return ""
}
