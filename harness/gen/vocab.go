package gen

import (
	"sort"
	"strings"

	"github.com/prometheus/prometheus/promql/parser"
)

// Construct is one element of the PromQL vocabulary with type-correct arguments.
type Construct struct {
	Name string
	Expr string
	Type string // vector | scalar | matrix | string
}

func argFor(t parser.ValueType, fn string, i int) string {
	switch t {
	case parser.ValueTypeVector:
		if strings.HasPrefix(fn, "histogram_") {
			return "h_bucket"
		}
		return "m"
	case parser.ValueTypeMatrix:
		return "m[2m]"
	case parser.ValueTypeScalar:
		switch fn {
		case "clamp":
			return []string{"", "0", "5"}[i]
		case "histogram_fraction":
			return []string{"0", "1"}[i]
		case "predict_linear":
			return "60"
		case "round":
			return "5"
		}
		return "0.5"
	case parser.ValueTypeString:
		switch fn {
		case "label_replace":
			return []string{"", `"dst"`, `"$1"`, `"a"`, `"(.*)"`}[i]
		case "label_join":
			if i == 1 {
				return `"dst"`
			}
			if i == 2 {
				return `"-"`
			}
			return []string{`"a"`, `"b"`}[i%2]
		}
		return `"a"`
	}
	return "m"
}

func typeName(t parser.ValueType) string {
	switch t {
	case parser.ValueTypeVector:
		return "vector"
	case parser.ValueTypeScalar:
		return "scalar"
	case parser.ValueTypeMatrix:
		return "matrix"
	case parser.ValueTypeString:
		return "string"
	}
	return "none"
}

// Vocabulary enumerates the complete vocabulary of the pinned parser.
func Vocabulary() []Construct {
	var out []Construct
	names := make([]string, 0, len(parser.Functions))
	for n := range parser.Functions {
		names = append(names, n)
	}
	sort.Strings(names)
	for _, n := range names {
		f := parser.Functions[n]
		build := func(nargs int) string {
			var args []string
			for i := 0; i < nargs; i++ {
				at := f.ArgTypes[len(f.ArgTypes)-1]
				if i < len(f.ArgTypes) {
					at = f.ArgTypes[i]
				}
				args = append(args, argFor(at, n, i))
			}
			return n + "(" + strings.Join(args, ", ") + ")"
		}
		full := len(f.ArgTypes)
		switch {
		case f.Variadic == 0:
			out = append(out, Construct{"fn:" + n, build(full), typeName(f.ReturnType)})
		case f.Variadic > 0:
			out = append(out, Construct{"fn:" + n + "/min", build(full - f.Variadic), typeName(f.ReturnType)})
			out = append(out, Construct{"fn:" + n + "/max", build(full), typeName(f.ReturnType)})
		default:
			out = append(out, Construct{"fn:" + n + "/min", build(full - 1), typeName(f.ReturnType)})
			out = append(out, Construct{"fn:" + n + "/more", build(full + 1), typeName(f.ReturnType)})
		}
	}
	// functions with other argument kinds
	out = append(out,
		Construct{"fn:rate(subquery)", "rate(m[3m:1m])", "vector"},
		Construct{"fn:max_over_time(subquery of fn)", "max_over_time(rate(m[1m])[3m:1m])", "vector"},
		Construct{"fn:abs(agg)", "abs(sum by (a) (m))", "vector"},
		Construct{"fn:abs(binary)", "abs(m - n)", "vector"},
		Construct{"fn:clamp_min(scalar())", "clamp_min(m, scalar(n))", "vector"},
		Construct{"fn:rate(at end)", "rate(m[1m] @ end())", "vector"},
		Construct{"fn:scalar(literal vector)", "scalar(vector(1))", "scalar"},
	)
	for _, a := range []string{"sum", "min", "max", "avg", "count", "group", "stddev", "stdvar"} {
		out = append(out, Construct{"agg:" + a, a + "(m)", "vector"})
		out = append(out, Construct{"agg:" + a + "/by", a + " by (a) (m)", "vector"})
		out = append(out, Construct{"agg:" + a + "/without", a + " without (a) (m)", "vector"})
	}
	out = append(out,
		Construct{"agg:topk", "topk(2, m)", "vector"},
		Construct{"agg:bottomk/by", "bottomk by (a) (1, m)", "vector"},
		Construct{"agg:quantile", "quantile(0.5, m)", "vector"},
		Construct{"agg:count_values", `count_values("v", m)`, "vector"},
		Construct{"agg:count_values/by", `count_values by (a) ("v", m)`, "vector"},
	)
	for _, op := range []string{"+", "-", "*", "/", "%", "^", "atan2", "==", "!=", ">", "<", ">=", "<="} {
		out = append(out, Construct{"bin:" + op, "m " + op + " n", "vector"})
		out = append(out, Construct{"bin:" + op + "/scalar", "m " + op + " 2", "vector"})
	}
	for _, op := range []string{"and", "or", "unless"} {
		out = append(out, Construct{"set:" + op, "m " + op + " n", "vector"})
		out = append(out, Construct{"set:" + op + "/on", "m " + op + " on (a) n", "vector"})
		out = append(out, Construct{"set:" + op + "/ignoring", "m " + op + " ignoring (a) n", "vector"})
	}
	out = append(out,
		Construct{"bin:on", "m + on (a) n", "vector"},
		Construct{"bin:ignoring", "m + ignoring (a) n", "vector"},
		Construct{"bin:group_left", "m * on (a) group_left () n", "vector"},
		Construct{"bin:group_right", "m * ignoring (b) group_right (c) n", "vector"},
		Construct{"bin:bool", "m > bool n", "vector"},
		Construct{"bin:bool/scalar", "m >= bool 1", "vector"},
		Construct{"bin:scalar-scalar", "1 + 2", "scalar"},
		Construct{"bin:scalar-scalar/bool", "1 > bool 2", "scalar"},
		Construct{"lit:number", "42", "scalar"},
		Construct{"lit:string", `"abc"`, "string"},
		Construct{"sel:vector", "m", "vector"},
		Construct{"sel:matchers", `m{a=~"1|2",b!=""}`, "vector"},
		Construct{"sel:noname", `{a="1"}`, "vector"},
		Construct{"sel:offset", "m offset 1m", "vector"},
		Construct{"sel:negoffset", "m offset -30s", "vector"},
		Construct{"sel:at", "m @ 3700", "vector"},
		Construct{"sel:atstart", "m @ start()", "vector"},
		Construct{"sel:atend", "m @ end() offset 30s", "vector"},
		Construct{"sel:matrix", "m[2m]", "matrix"},
		Construct{"sel:matrix/offset", "m[2m] offset 1m", "matrix"},
		Construct{"subquery", "m[5m:1m]", "matrix"},
		Construct{"subquery/nostep", "m[5m:]", "matrix"},
		Construct{"subquery/of fn", "rate(m[1m])[5m:1m]", "matrix"},
		Construct{"subquery/at", "m[5m:1m] @ 3700", "matrix"},
		Construct{"unary:-", "-m", "vector"},
		Construct{"unary:+", "+m", "vector"},
		Construct{"unary:-scalar", "-(1)", "scalar"},
		Construct{"paren", "(m)", "vector"},
	)
	return out
}

// Position is a syntactic position template; %s is replaced by the construct.
type Position struct {
	Name string
	Tmpl string
	For  string // construct type this position accepts
	Type string // type of the resulting expression
}

// Positions lists the syntactic positions of C08.
func Positions() []Position {
	return []Position{
		{"top", "%s", "vector", "vector"},
		{"fnarg", "abs(%s)", "vector", "vector"},
		{"aggoperand", "sum(%s)", "vector", "vector"},
		{"aggoperand/by", "max by (a) (%s)", "vector", "vector"},
		{"aggparam", "topk(scalar(%s), n)", "vector", "vector"},
		{"binlhs", "(%s) + n", "vector", "vector"},
		{"binrhs", "n * on (a) (%s)", "vector", "vector"},
		{"bincmp", "(%s) > bool 1", "vector", "vector"},
		{"paren", "((%s))", "vector", "vector"},
		{"unary", "-(%s)", "vector", "vector"},
		{"scalararg", "clamp_min(n, scalar(%s))", "vector", "vector"},
		{"subquery", "max_over_time((%s)[3m:1m])", "vector", "vector"},
		{"histarg", "histogram_quantile(0.5, %s)", "vector", "vector"},
		{"fnarg/first-of-2", "clamp_min(%s, 5)", "vector", "vector"},
		{"fnarg/first-of-3", "clamp(%s, 0, 10)", "vector", "vector"},
		{"fnarg/first,scalar-last", "clamp_max(%s, scalar(n))", "vector", "vector"},
		{"histparam", "histogram_quantile(scalar(%s), h_bucket)", "vector", "vector"},
		{"binscalar(scalar())/rhs", "n / scalar(%s)", "vector", "vector"},
		{"binscalar(scalar())/lhs", "scalar(%s) * n", "vector", "vector"},
		{"binscalar(scalar())/cmp", "n > bool scalar(%s)", "vector", "vector"},
		{"scalarbin(scalar())", "1 + scalar(%s)", "vector", "scalar"},
		{"vector(scalar())", "vector(scalar(%s))", "vector", "vector"},
		{"unary(scalar())", "-scalar(%s)", "vector", "scalar"},
		{"binlhs/scalar-rhs", "(%s) * 2", "vector", "vector"},
		{"binrhs/scalar-lhs", "2 - (%s)", "vector", "vector"},

		{"top", "%s", "scalar", "scalar"},
		{"vector()", "vector(%s)", "scalar", "vector"},
		{"binscalar/rhs", "n + (%s)", "scalar", "vector"},
		{"binscalar/lhs", "(%s) < n", "scalar", "vector"},
		{"fnscalararg", "clamp_max(n, %s)", "scalar", "vector"},
		{"fnscalararg/middle", "clamp(n, %s, 10)", "scalar", "vector"},
		{"histparam", "histogram_quantile(%s, h_bucket)", "scalar", "vector"},
		{"aggparam", "bottomk(%s, n)", "scalar", "vector"},
		{"quantileparam", "quantile(%s, n)", "scalar", "vector"},
		{"unary", "-(%s)", "scalar", "scalar"},
		{"scalarbin", "(%s) + 1", "scalar", "scalar"},

		{"top", "%s", "matrix", "matrix"},
		{"rangefn", "count_over_time(%s)", "matrix", "vector"},
		{"agg(rangefn)", "sum(rate(%s))", "matrix", "vector"},
		{"unsupported rangefn", "quantile_over_time(0.5, %s)", "matrix", "vector"},

		{"top", "%s", "string", "string"},
		{"strarg", `label_replace(n, %s, "$1", "a", "(.*)")`, "string", "vector"},
	}
}

// VocabCase is one element of the C08 product.
type VocabCase struct {
	Construct Construct
	Position  Position
	Query     string
}

// VocabProduct enumerates construct x compatible position.
func VocabProduct() []VocabCase {
	var out []VocabCase
	for _, c := range Vocabulary() {
		for _, p := range Positions() {
			if p.For != c.Type {
				continue
			}
			out = append(out, VocabCase{c, p, strings.Replace(p.Tmpl, "%s", c.Expr, 1)})
		}
	}
	return out
}
