package gen

import (
	"pgregory.net/rapid"

	"verifharness/core"
)

// Config is the engine / run configuration of a case.
type Config struct {
	Lookback  int64
	QLookback int64
	Opt       string
	Procs     int
	Shuffle   uint64
}

var lookbacks = []int64{0, 0, 0, 7000, 30000, 60000, 300000, 600000}

func DrawConfig(t *rapid.T) Config {
	c := Config{}
	c.Lookback = pick(t, lookbacks, "lookback")
	if chance(t, 1, 5, "hasqlookback") {
		c.QLookback = pick(t, []int64{-1, 7000, 30000, 60000, 300000, 600000}, "qlookback")
	}
	c.Opt = pick(t, []string{"none", "default"}, "opt")
	c.Procs = pick(t, []int{1, 2, 4, 4, 6, 8, 16, 3, 5, 12}, "procs")
	if chance(t, 1, 2, "shuffled") {
		c.Shuffle = uint64(ir(t, 1, 1<<30, "shuffle"))
	}
	return c
}

// EffLookback is the lookback in effect in ms.
func (c Config) EffLookback() int64 {
	if c.QLookback > 0 {
		return c.QLookback
	}
	if c.Lookback > 0 {
		return c.Lookback
	}
	return 300000
}

func (c Config) Apply(cs *core.Case) {
	cs.Lookback = c.Lookback
	cs.QLookback = c.QLookback
	cs.Opt = c.Opt
	cs.Procs = c.Procs
	cs.Shuffle = c.Shuffle
}
