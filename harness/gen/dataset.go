// Package gen holds the rapid generators: datasets, windows, configurations and the
// typed PromQL grammar. Every random choice is a rapid draw.
package gen

import (
	"math"
	"sort"

	"pgregory.net/rapid"

	"verifharness/core"
)

// Cls is the stability class of generated values (DESIGN.md §3.3).
type Cls int

const (
	S Cls = iota // exactly summable: multiples of 0.25 of small magnitude (or NaN/Inf)
	I            // bit-identical for any correct implementation, but not exactly summable
	R            // equal only up to rounding (formula / summation order may differ)
)

func maxCls(a, b Cls) Cls {
	if a > b {
		return a
	}
	return b
}

func ir(t *rapid.T, lo, hi int, label string) int {
	return rapid.IntRange(lo, hi).Draw(t, label)
}

func pick[T any](t *rapid.T, xs []T, label string) T {
	return xs[rapid.IntRange(0, len(xs)-1).Draw(t, label)]
}

// chance draws true with probability num/den.
func chance(t *rapid.T, num, den int, label string) bool {
	return rapid.IntRange(0, den-1).Draw(t, label) >= den-num
}

// Window is an evaluation window in ms. Step==0 means instant.
type Window struct {
	Start, End, Step int64
}

func (w Window) Steps() int {
	if w.Step == 0 {
		return 1
	}
	return int((w.End-w.Start)/w.Step) + 1
}

var stepChoices = []int64{1000, 5000, 7000, 10000, 15000, 30000, 60000, 1234, 37000, 120000, 300000}

// WindowOpts tunes DrawWindow.
type WindowOpts struct {
	ForceRange   bool
	ForceInstant bool
	MaxSteps     int // default 35 (+ tail up to 130)
	MinSteps     int // default 1
	NoTail       bool
	Long         bool // rarely up to 1200 steps
}

// Base is the nominal beginning of generated data.
const Base = int64(3600000)

func DrawWindow(t *rapid.T, o WindowOpts) Window {
	instant := false
	switch {
	case o.ForceInstant:
		instant = true
	case o.ForceRange:
	default:
		instant = chance(t, 1, 5, "instant")
	}
	// Start relative to the data: usually inside, sometimes before or after.
	var start int64
	switch ir(t, 0, 9, "startpos") {
	case 0:
		start = Base - int64(ir(t, 1, 600, "pre"))*1000 // before data
	case 1:
		start = Base + int64(ir(t, 0, 1800000, "startms")) // unaligned ms
	default:
		start = Base + int64(ir(t, 0, 120, "start15"))*15000
	}
	if instant {
		return Window{Start: start, End: start}
	}
	step := pick(t, stepChoices, "step")
	maxSteps := o.MaxSteps
	if maxSteps == 0 {
		maxSteps = 35
	}
	minSteps := o.MinSteps
	if minSteps < 1 {
		minSteps = 1
	}
	n := ir(t, minSteps, maxSteps, "nsteps")
	if !o.NoTail && chance(t, 1, 12, "tail") {
		n = ir(t, 36, 130, "nsteps_tail")
		if o.Long && chance(t, 1, 10, "longtail") {
			n = ir(t, 131, 1200, "nsteps_long")
		}
	}
	end := start + int64(n-1)*step
	if chance(t, 1, 4, "endslack") {
		// end not on the grid: the last step is still the largest start+k*step <= end
		end += int64(ir(t, 1, int(step)-1, "slack"))
	}
	return Window{Start: start, End: end, Step: step}
}

// DataOpts tunes DrawDataset.
type DataOpts struct {
	MaxSeries   int     // default 12
	Profile     string  // "", "exact", "float", "counter", "extreme": "" draws one
	Specials    bool    // allow NaN/Inf/stale specials
	Lookback    int64   // lookback in effect (for the boundary snapper)
	Offsets     []int64 // offsets used by the query (ms)
	Ranges      []int64 // ranges used by the query (ms)
	Histogram   bool    // add h_bucket family
	AllLabelled bool    // every series carries every label (C10-friendly data)
	MinSeries   int
	Metrics     []string // metric names to draw from (default m, n, k)
	Big         bool     // occasionally draw 64..260 series
	Twins       bool     // add series that differ from another one only in the metric name and take over where it ends
	FewValues   bool     // label values from {1, 2} only, so that groups have several members
}

type Dataset struct {
	Series  []core.Series
	Cls     Cls
	Profile string
}

var metricNames = []string{"m", "n", "k"}
var labelNames = []string{"a", "b", "c"}
var labelValues = []string{"1", "2", "3"}

var intervals = []int64{5000, 10000, 15000, 30000, 37000, 60000, 300000}

// leValues are bucket bounds; "1"/"1.0"/"1e0", "5"/"5.0" and "+Inf"/"Inf" are equal as numbers.
var leValues = []string{"0.1", "1", "5", "+Inf", "+Inf", "x", "1.0", "5.0", "Inf", "1e0", "-1", "0"}

func DrawDataset(t *rapid.T, w Window, o DataOpts) Dataset {
	maxSeries := o.MaxSeries
	if maxSeries == 0 {
		maxSeries = 12
	}
	profile := o.Profile
	if profile == "" {
		profile = pick(t, []string{"exact", "exact", "exact", "float", "counter"}, "profile")
	}
	ds := Dataset{Profile: profile}
	switch profile {
	case "exact", "counter":
		ds.Cls = S
	default:
		ds.Cls = I
	}
	n := ir(t, o.MinSeries, maxSeries, "nseries")
	if o.Big && chance(t, 1, 40, "bigdata") {
		// many series (several shards with dozens of series each)
		n = ir(t, 64, 260, "nseries_big")
	}
	seen := map[string]bool{}
	specialPct := 0
	if o.Specials {
		specialPct = pick(t, []int{0, 0, 3, 10, 25}, "specialpct")
	}
	lookback := o.Lookback
	if lookback == 0 {
		lookback = 300000
	}
	span := w.End - w.Start
	dataLo := w.Start - 900000
	if dataLo < 0 {
		dataLo = 0
	}
	dataHi := w.End + 300000
	// Smallest interval that keeps series below ~250 samples.
	minIv := (dataHi - dataLo) / 250
	if n > 40 {
		minIv = (dataHi - dataLo) / 40
	}
	// Bucket families: several h_bucket series that share their labels and differ in le
	// only, including bounds that are equal as numbers but spelled differently.
	var family [][]core.Label
	for i := 0; i < n; i++ {
		var lbls []core.Label
		mnames := metricNames
		if len(o.Metrics) > 0 {
			mnames = o.Metrics
		}
		name := pick(t, mnames, "metric")
		if o.Histogram && chance(t, 1, 3, "hist") {
			name = "h_bucket"
		}
		if len(family) > 0 {
			name = "h_bucket"
		}
		lbls = append(lbls, core.Label{N: "__name__", V: name})
		if len(family) > 0 {
			lbls = family[0]
			family = family[1:]
		} else {
			for _, ln := range labelNames {
				if o.AllLabelled || chance(t, 2, 3, "has_"+ln) {
					vals := labelValues
					if o.FewValues {
						vals = labelValues[:2]
					}
					lbls = append(lbls, core.Label{N: ln, V: pick(t, vals, "val_"+ln)})
				}
			}
			if chance(t, 1, 5, "has_Z") {
				// a label name that sorts before __name__
				lbls = append([]core.Label{{N: "Z", V: pick(t, []string{"1", "2"}, "val_Z")}}, lbls...)
			}
			if name == "h_bucket" {
				base := append([]core.Label(nil), lbls...)
				le := pick(t, leValues, "le")
				lbls = append(lbls, core.Label{N: "le", V: le})
				if chance(t, 1, 2, "family") {
					used := map[string]bool{le: true}
					for k := ir(t, 1, 5, "famsize"); k > 0; k-- {
						l := pick(t, leValues, "famle")
						if used[l] {
							continue
						}
						used[l] = true
						family = append(family, append(append([]core.Label(nil), base...), core.Label{N: "le", V: l}))
					}
				}
			}
		}
		key := ""
		for _, l := range lbls {
			key += l.N + "=" + l.V + ","
		}
		if seen[key] {
			if n <= 40 {
				continue
			}
			id := core.Label{N: "id", V: "s" + itoa(i)}
			lbls = append(lbls, id)
			key += "id=" + id.V
		}
		seen[key] = true

		iv := pick(t, intervals, "interval")
		for iv < minIv {
			iv *= 2
		}
		jitter := chance(t, 1, 2, "jitter")
		// Where the series starts and ends.
		lo, hi := dataLo, dataHi
		switch ir(t, 0, 7, "extent") {
		case 0: // starts late
			lo = w.Start + span*int64(ir(t, 0, 100, "lofrac"))/100
		case 1: // ends early
			hi = w.Start + span*int64(ir(t, 0, 100, "hifrac"))/100
		case 2: // entirely before the window
			hi = w.Start - int64(ir(t, 0, 400, "before"))*1000
		}
		var ts []int64
		for x := lo + int64(ir(t, 0, int(iv), "phase")); x <= hi && len(ts) < 400; {
			ts = append(ts, x)
			d := iv
			if jitter {
				d += int64(ir(t, -int(iv/4), int(iv/4), "jit"))
			}
			if chance(t, 1, 25, "gap") {
				d += iv * int64(ir(t, 2, 40, "gaplen"))
			}
			if d < 1 {
				d = 1
			}
			x += d
		}
		// Boundary snapper: place samples at adversarial positions.
		nsnap := ir(t, 0, 3, "nsnap")
		for j := 0; j < nsnap; j++ {
			stepIdx := ir(t, 0, w.Steps()-1, "snapstep")
			ref := w.Start + int64(stepIdx)*w.Step
			if len(o.Offsets) > 0 {
				ref -= pick(t, o.Offsets, "snapoff")
			}
			kind := ir(t, 0, 2, "snapkind")
			var pos int64
			switch {
			case kind == 0:
				pos = ref
			case kind == 1 || len(o.Ranges) == 0:
				pos = ref - lookback
			default:
				pos = ref - pick(t, o.Ranges, "snaprange")
			}
			pos += int64(ir(t, -1, 1, "snapdelta"))
			if pos >= 0 {
				ts = append(ts, pos)
				if chance(t, 1, 3, "snapclear") {
					// Remove other samples near the snapped one so it is the deciding sample.
					var keep []int64
					for _, x := range ts {
						if x == pos || x < pos-lookback-2 || x > pos+iv {
							keep = append(keep, x)
						}
					}
					ts = keep
				}
			}
		}
		sort.Slice(ts, func(a, b int) bool { return ts[a] < ts[b] })
		var samples []core.Sample
		var last int64 = -1
		cur := float64(ir(t, 0, 40, "c0")) * 0.25
		for _, x := range ts {
			if x == last {
				continue
			}
			last = x
			var v float64
			switch profile {
			case "exact":
				v = float64(ir(t, -256, 256, "v")) * 0.25
			case "counter":
				if chance(t, 1, 15, "reset") {
					cur = float64(ir(t, 0, 8, "rv")) * 0.25
				} else {
					cur += float64(ir(t, 0, 40, "inc")) * 0.25
				}
				v = cur
			case "float":
				v = rapid.Float64Range(-1e6, 1e6).Draw(t, "fv")
			case "extreme":
				v = pick(t, []float64{math.MaxFloat64, -math.MaxFloat64, math.SmallestNonzeroFloat64, -math.SmallestNonzeroFloat64, 1e308, -1e308, 1e-310, 4.9e-324, 0, 1, -1, 1e200, -1e200}, "xv")
			}
			f := core.F(v)
			if specialPct > 0 && ir(t, 0, 99, "sp") < specialPct {
				switch ir(t, 0, 5, "spkind") {
				case 0:
					f = core.F(math.NaN())
				case 1:
					f = core.F(math.Inf(1))
				case 2:
					f = core.F(math.Inf(-1))
				case 3, 4:
					f = core.Stale()
				case 5:
					f = 0
				}
			}
			samples = append(samples, core.Sample{T: x, V: f})
		}
		ds.Series = append(ds.Series, core.Series{Labels: lbls, Samples: samples})
		if o.Twins && len(samples) >= 2 && chance(t, 1, 3, "twin") {
			// twin: same labels under another metric name; it takes over at a drawn
			// hand-over point (disjoint, sharing exactly one timestamp, or overlapping)
			var tl []core.Label
			for _, l := range lbls {
				if l.N == "__name__" {
					l.V = l.V + "2"
				}
				tl = append(tl, l)
			}
			cut := ir(t, 1, len(samples)-1, "twincut")
			first := append([]core.Sample(nil), samples[:cut]...)
			second := append([]core.Sample(nil), samples[cut:]...)
			switch ir(t, 0, 3, "twinkind") {
			case 0: // the first series goes stale exactly where the twin starts
				first = append(first, core.Sample{T: second[0].T, V: core.Stale()})
			case 1: // both have a sample at the hand-over timestamp
				first = append(first, second[0])
			case 2: // overlap of several samples
				n := len(second)
				if n > 3 {
					n = 3
				}
				first = append(first, second[:n]...)
			}
			ds.Series[len(ds.Series)-1].Samples = first
			key2 := ""
			for _, l := range tl {
				key2 += l.N + "=" + l.V + ","
			}
			if !seen[key2] {
				seen[key2] = true
				ds.Series = append(ds.Series, core.Series{Labels: tl, Samples: second})
			}
		}
	}
	// A pause common to all series of one metric (or to all series): whole batches of
	// steps at which an operand is empty while its siblings keep producing.
	if w.Step > 0 && w.Steps() >= 12 && chance(t, 1, 6, "commonpause") {
		k := ir(t, 10, 25, "pausesteps")
		s0 := 0
		if w.Steps() > k && chance(t, 1, 2, "pauselater") {
			s0 = ir(t, 0, w.Steps()-k, "pausefrom")
		}
		metric := ""
		if chance(t, 1, 2, "pausemetric") {
			mn := metricNames
			if len(o.Metrics) > 0 {
				mn = o.Metrics
			}
			metric = pick(t, mn, "pausewhich")
		}
		lo := w.Start + int64(s0)*w.Step - lookback - 1
		hi := w.Start + int64(s0+k)*w.Step
		for _, off := range o.Offsets {
			if off > 0 {
				lo -= off
			}
		}
		for _, r := range o.Ranges {
			if r > lookback && lo > w.Start+int64(s0)*w.Step-r-1 {
				lo = w.Start + int64(s0)*w.Step - r - 1
			}
		}
		for i := range ds.Series {
			if metric != "" {
				isM := false
				for _, l := range ds.Series[i].Labels {
					if l.N == "__name__" && l.V == metric {
						isM = true
					}
				}
				if !isM {
					continue
				}
			}
			var keep []core.Sample
			for _, p := range ds.Series[i].Samples {
				if p.T <= lo || p.T > hi {
					keep = append(keep, p)
				}
			}
			ds.Series[i].Samples = keep
		}
	}
	return ds
}

func itoa(i int) string {
	if i == 0 {
		return "0"
	}
	var b []byte
	for i > 0 {
		b = append([]byte{byte('0' + i%10)}, b...)
		i /= 10
	}
	return string(b)
}
