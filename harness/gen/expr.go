package gen

import (
	"fmt"
	"strconv"
	"strings"

	"pgregory.net/rapid"
)

// QCtx carries the offsets and ranges a query may use; it is drawn before the
// dataset so that the boundary snapper can aim at them.
type QCtx struct {
	Offsets []int64 // ms, may be negative
	Ranges  []int64 // ms
	Ats     []int64 // @ literals (ms)
}

var rangeChoices = []int64{1000, 5000, 30000, 60000, 90000, 120000, 300000, 1500, 61500, 600000, 45000, 7000}

func DrawQCtx(t *rapid.T, w Window) QCtx {
	q := QCtx{}
	n := ir(t, 0, 2, "noffsets")
	for i := 0; i < n; i++ {
		o := pick(t, []int64{30000, 60000, 300000, -20000, -60000, 1000, 90500, 600000, -1500}, "offset")
		q.Offsets = append(q.Offsets, o)
	}
	nr := ir(t, 1, 2, "nranges")
	for i := 0; i < nr; i++ {
		q.Ranges = append(q.Ranges, pick(t, rangeChoices, "range"))
	}
	// Add a range related to the step.
	if w.Step > 0 && chance(t, 1, 2, "steprange") {
		q.Ranges = append(q.Ranges, w.Step*int64(pick(t, []int{1, 2, 3}, "stepmul")))
	}
	na := ir(t, 0, 1, "nats")
	for i := 0; i < na; i++ {
		switch ir(t, 0, 3, "atkind") {
		case 0:
			q.Ats = append(q.Ats, Base-int64(ir(t, 1, 1000, "atpre"))*1000)
		case 1:
			q.Ats = append(q.Ats, w.End+int64(ir(t, 1, 4000, "atpost"))*1000)
		default:
			q.Ats = append(q.Ats, w.Start+(w.End-w.Start)*int64(ir(t, 0, 100, "atfrac"))/100)
		}
	}
	return q
}

// Profile weights the grammar.
type Profile struct {
	MaxDepth   int
	NoAt       bool
	NoStartEnd bool // no @ start()/end()
	NoOffset   bool
	NoRangeFn  bool
	NoAgg      bool
	NoBinary   bool
	NoFunc     bool
	NoHist     bool
	NoScalarFn bool // no scalar()/time()-style varying scalars
	Nameless   bool // also draw selectors without a metric name
	// Focus makes the top-level production one of a family: "", "selector", "rangefn", "agg", "binary", "func".
	Focus string
	// Metrics available in the dataset (default metricNames).
	Metrics []string
	HasHist bool
	// VaryParams: aggregation parameters are mostly expressions that change from step to
	// step (read series, use time()) instead of literals.
	VaryParams bool
}

// G is the expression generator state.
type G struct {
	t   *rapid.T
	q   QCtx
	p   Profile
	dcl Cls // class of raw dataset values
	w   Window
	// prev holds the (name, matchers) of the selectors generated so far; later
	// selectors are sometimes derived from them (identical, or with one more
	// matcher) so that selects are shared, merged and propagated.
	prev [][2]string
	// zeroSign > 0 while an operand of / ^ atan2 is drawn: the sign of a zero decides
	// between +Inf and -Inf there, and min/max over a group that holds +0 and -0 return
	// whichever came first (series order), in the reference as well as in the engine.
	zeroSign int
}

func NewG(t *rapid.T, q QCtx, p Profile, dataCls Cls, w Window) *G {
	if p.MaxDepth == 0 {
		p.MaxDepth = 3
	}
	if len(p.Metrics) == 0 {
		p.Metrics = metricNames
	}
	return &G{t: t, q: q, p: p, dcl: dataCls, w: w}
}

func durStr(ms int64) string {
	neg := ms < 0
	if neg {
		ms = -ms
	}
	var s string
	if ms%1000 == 0 {
		s = strconv.FormatInt(ms/1000, 10) + "s"
	} else {
		s = strconv.FormatInt(ms, 10) + "ms"
	}
	if neg {
		return "-" + s
	}
	return s
}

// Matchers draws a matcher list (possibly empty) over the label universe.
func (g *G) matchers() string {
	t := g.t
	n := pick(t, []int{0, 0, 0, 1, 1, 2}, "nmatch")
	var ms []string
	for i := 0; i < n; i++ {
		name := pick(t, labelNames, "mname")
		op := pick(t, []string{"=", "=", "!=", "=~", "!~"}, "mop")
		var val string
		if op == "=" || op == "!=" {
			val = pick(t, []string{"1", "2", "3", "", "9"}, "mval")
		} else {
			val = pick(t, []string{"1|2", "[23]", ".*", ".+", "", "1", "9|1"}, "mre")
		}
		ms = append(ms, fmt.Sprintf(`%s%s"%s"`, name, op, val))
	}
	return strings.Join(ms, ",")
}

func (g *G) selectorCore() string {
	if g.p.Nameless && chance(g.t, 1, 3, "nameless") {
		return pick(g.t, []string{`{a=~".+"}`, `{b="2"}`, `{__name__=~"m|n"}`, `{a="1",c!=""}`, `{__name__=~".+",b!="1"}`, `{__name__=~"m.*"}`, `{__name__=~"(m|n|k)2?"}`}, "namelesssel")
	}
	var name, m string
	if len(g.prev) > 0 && chance(g.t, 1, 3, "related") {
		base := pick(g.t, g.prev, "relatedto")
		name, m = base[0], base[1]
		if chance(g.t, 1, 2, "narrow") {
			extra := g.matchers()
			if extra != "" && m != "" {
				m += "," + extra
			} else if extra != "" {
				m = extra
			}
		}
	} else {
		name = pick(g.t, g.p.Metrics, "selmetric")
		m = g.matchers()
	}
	g.prev = append(g.prev, [2]string{name, m})
	if m == "" {
		return name
	}
	return name + "{" + m + "}"
}

func (g *G) modifiers() string {
	t := g.t
	s := ""
	if !g.p.NoOffset && len(g.q.Offsets) > 0 && chance(t, 1, 3, "useoff") {
		s += " offset " + durStr(pick(t, g.q.Offsets, "whichoff"))
	}
	if !g.p.NoAt && chance(t, 1, 8, "useat") {
		k := ir(t, 0, 3, "atk")
		switch {
		case k == 0 && !g.p.NoStartEnd:
			s += " @ start()"
		case k == 1 && !g.p.NoStartEnd:
			s += " @ end()"
		case len(g.q.Ats) > 0:
			at := pick(t, g.q.Ats, "whichat")
			s += fmt.Sprintf(" @ %d.%03d", at/1000, at%1000)
		}
	}
	return s
}

func (g *G) selector() string { return g.selectorCore() + g.modifiers() }

func (g *G) rangeSel() string {
	return g.selectorCore() + "[" + durStr(pick(g.t, g.q.Ranges, "whichrange")) + "]" + g.modifiers()
}

type fnInfo struct {
	name string
	cls  func(data Cls) Cls
}

func constCls(c Cls) func(Cls) Cls { return func(Cls) Cls { return c } }
func idCls(c Cls) Cls              { return c }

var rangeFns = []fnInfo{
	{"rate", constCls(R)}, {"increase", constCls(R)}, {"delta", constCls(R)}, {"irate", constCls(R)},
	{"idelta", constCls(R)}, {"deriv", constCls(R)},
	{"changes", constCls(S)}, {"resets", constCls(S)},
	{"count_over_time", constCls(S)}, {"present_over_time", constCls(S)},
	{"last_over_time", idCls}, {"min_over_time", idCls}, {"max_over_time", idCls},
	{"sum_over_time", func(d Cls) Cls {
		if d == S {
			return S
		}
		return R
	}},
	{"avg_over_time", constCls(R)}, {"stddev_over_time", constCls(R)}, {"stdvar_over_time", constCls(R)},
}

// RangeFnNames lists the natively supported range functions.
func RangeFnNames() []string {
	var out []string
	for _, f := range rangeFns {
		out = append(out, f.name)
	}
	return out
}

func (g *G) rangeFn(max Cls) (string, Cls) {
	var ok []fnInfo
	for _, f := range rangeFns {
		if f.cls(g.dcl) <= max {
			ok = append(ok, f)
		}
	}
	f := pick(g.t, ok, "rangefn")
	return f.name + "(" + g.rangeSel() + ")", f.cls(g.dcl)
}

// Instant functions of one vector argument.
// lip: Lipschitz-like (tolerates R input); keepS: S in -> S out.
type ifn struct {
	name  string
	lip   bool
	keepS bool
}

var instFns = []ifn{
	{"abs", true, true}, {"ceil", false, true}, {"floor", false, true},
	{"exp", true, false}, {"sqrt", false, false}, {"ln", false, false}, {"log2", false, false}, {"log10", false, false},
	// sin and cos are 1-Lipschitz, but the absolute error of an R operand grows with its
	// magnitude (sin(deg(exp(avg(x)))) amplifies one ulp to 1e-6), so they take <= I only.
	{"sin", false, false}, {"cos", false, false}, {"tan", false, false},
	{"asin", false, false}, {"acos", false, false}, {"atan", true, false},
	{"sinh", true, false}, {"cosh", true, false}, {"tanh", true, false},
	{"asinh", true, false}, {"acosh", false, false}, {"atanh", false, false},
	{"rad", true, false}, {"deg", true, false},
}

// InstFnNames lists supported one-argument instant functions.
func InstFnNames() []string {
	var out []string
	for _, f := range instFns {
		out = append(out, f.name)
	}
	return append(out, "clamp", "clamp_min", "clamp_max", "timestamp")
}

func (g *G) literal(max Cls) (string, Cls) {
	t := g.t
	switch ir(t, 0, 9, "litkind") {
	case 0:
		return pick(t, []string{"0", "1", "-1", "2", "0.5", "10", "100", "-0.25", "3", "1e3"}, "lit"), S
	case 1:
		if max >= I {
			return pick(t, []string{"0.1", "1e-3", "3.3", "-7.7", "2.5e-7", "33.3"}, "liti"), I
		}
		return "4", S
	case 2:
		return pick(t, []string{"NaN", "Inf", "-Inf"}, "litspecial"), S
	default:
		return strconv.FormatFloat(float64(ir(t, -40, 40, "litv"))*0.25, 'g', -1, 64), S
	}
}

// Scalar draws a scalar-typed expression of class <= max.
func (g *G) Scalar(depth int, max Cls) (string, Cls) {
	t := g.t
	if depth <= 0 || chance(t, 1, 2, "scalarleaf") {
		return g.literal(max)
	}
	k := ir(t, 0, 5, "scalarkind")
	switch {
	case k == 0 && !g.p.NoScalarFn && max >= I:
		return "time()", I
	case k == 1 && max >= I:
		return "pi()", I
	case k == 2 && !g.p.NoScalarFn:
		v, c := g.Vector(depth-1, max)
		return "scalar(" + v + ")", c
	case k == 3:
		a, ca := g.Scalar(depth-1, max)
		return "-" + paren(a), ca
	case k == 4:
		// scalar arithmetic
		op := pick(t, []string{"+", "-", "*", "/", "%", "^"}, "sop")
		lm, rm := max, max
		if op == "/" {
			rm = minCls(max, I)
		}
		if op == "%" || op == "^" {
			lm, rm = minCls(max, I), minCls(max, I)
		}
		if op == "/" || op == "^" {
			g.zeroSign++
			defer func() { g.zeroSign-- }()
		}
		a, ca := g.Scalar(depth-1, lm)
		b, cb := g.Scalar(depth-1, rm)
		return paren(a) + " " + op + " " + paren(b), arithCls(op, ca, cb)
	default:
		if !g.p.NoScalarFn && max >= I {
			// time-varying scalar
			d := pick(t, []string{"10", "100", "1000", "7"}, "tdiv")
			return "time() / " + d, I
		}
		return g.literal(max)
	}
}

func minCls(a, b Cls) Cls {
	if a < b {
		return a
	}
	return b
}

func arithCls(op string, a, b Cls) Cls {
	c := maxCls(a, b)
	if c == R {
		return R
	}
	if op == "+" || op == "-" {
		return c // S+S stays S (bounded depth keeps the mantissa small)
	}
	return I
}

func paren(s string) string {
	if isAtom(s) {
		return s
	}
	return "(" + s + ")"
}

func isAtom(s string) bool {
	for _, r := range s {
		if !(r >= 'a' && r <= 'z' || r >= 'A' && r <= 'Z' || r >= '0' && r <= '9' || r == '_' || r == '.') {
			return false
		}
	}
	return true
}

var cmpOps = []string{"==", "!=", ">", "<", ">=", "<="}
var arithOps = []string{"+", "-", "*", "/", "%", "^", "atan2"}

func (g *G) grouping() string {
	t := g.t
	k := ir(t, 0, 5, "grpkind")
	if k <= 1 {
		return ""
	}
	kw := "by"
	if k >= 4 {
		kw = "without"
	}
	univ := []string{"a", "b", "c", "__name__", "zz", "Z"}
	n := pick(t, []int{0, 1, 1, 2, 2, 3}, "ngrp")
	var ls []string
	for i := 0; i < n; i++ {
		ls = append(ls, pick(t, univ[:pick(t, []int{3, 3, 3, 6}, "univ")], "grplabel"))
	}
	return " " + kw + " (" + strings.Join(ls, ",") + ") "
}

func (g *G) matching(card bool) string {
	t := g.t
	k := ir(t, 0, 5, "matchkind")
	s := ""
	onList := ""
	switch {
	case k <= 1:
	case k <= 3:
		onList = g.labelList()
		s = " on (" + onList + ")"
	default:
		s = " ignoring (" + g.labelList() + ")"
	}
	if card && s != "" && chance(t, 1, 3, "group") {
		gk := pick(t, []string{"group_left", "group_right"}, "groupside")
		inc := " ()" // explicit: a parenthesised right operand would otherwise be read as the include list
		if chance(t, 1, 2, "include") {
			// a label must not occur in the ON and the GROUP clause at once (parse error)
			var ls []string
			for _, l := range strings.Split(g.labelList(), ",") {
				dup := false
				for _, o := range strings.Split(onList, ",") {
					if l == o {
						dup = true
					}
				}
				if !dup && l != "" {
					ls = append(ls, l)
				}
			}
			inc = " (" + strings.Join(ls, ",") + ")"
		}
		s += " " + gk + inc
	}
	return s
}

func (g *G) labelList() string {
	t := g.t
	n := pick(t, []int{0, 1, 1, 2, 3}, "nlbl")
	var ls []string
	for i := 0; i < n; i++ {
		ls = append(ls, pick(t, []string{"a", "b", "c", "a", "b", "zz", "Z"}, "lbl"))
	}
	return strings.Join(ls, ",")
}

// AggOps lists the natively supported aggregations.
var AggOps = []string{"sum", "min", "max", "avg", "count", "group", "stddev", "stdvar", "quantile", "topk", "bottomk"}

// Vector draws an instant-vector expression of class <= max.
func (g *G) Vector(depth int, max Cls) (string, Cls) {
	t := g.t
	if depth <= 0 {
		if g.dcl > max {
			// raw data too unstable for this consumer; use a value-independent view of it
			return "count_over_time(" + g.rangeSel() + ")", S
		}
		return g.selector(), g.dcl
	}
	type prod struct {
		name string
		w    int
	}
	selW := 3
	if depth >= 2 {
		selW = 1
	}
	prods := []prod{{"selector", selW}}
	if !g.p.NoRangeFn {
		prods = append(prods, prod{"rangefn", 3})
	}
	if !g.p.NoFunc {
		prods = append(prods, prod{"func", 3})
	}
	if !g.p.NoAgg {
		prods = append(prods, prod{"agg", 4})
	}
	if !g.p.NoBinary {
		prods = append(prods, prod{"binary", 4}, prod{"unary", 1})
	}
	if !g.p.NoHist && g.p.HasHist && max >= R {
		prods = append(prods, prod{"hist", 1})
	}
	if !g.p.NoScalarFn {
		prods = append(prods, prod{"vector", 1})
	}
	tot := 0
	for _, p := range prods {
		tot += p.w
	}
	x := ir(t, 0, tot-1, "vprod")
	var which string
	for _, p := range prods {
		if x < p.w {
			which = p.name
			break
		}
		x -= p.w
	}
	return g.vectorProd(which, depth, max)
}

// VectorOf draws a vector expression whose top-level production is fixed.
func (g *G) VectorOf(which string, depth int, max Cls) (string, Cls) {
	return g.vectorProd(which, depth, max)
}

func (g *G) vectorProd(which string, depth int, max Cls) (string, Cls) {
	t := g.t
	switch which {
	case "selector":
		return g.Vector(0, max)
	case "rangefn":
		return g.rangeFn(max)
	case "vector":
		s, c := g.Scalar(depth-1, max)
		return "vector(" + s + ")", c
	case "unary":
		v, c := g.Vector(depth-1, max)
		if chance(t, 1, 4, "unaryplus") {
			return "+" + paren(v), c
		}
		return "-" + paren(v), c
	case "hist":
		phi, _ := g.Scalar(1, I)
		if chance(t, 1, 2, "philit") {
			phi = pick(t, []string{"0", "0.5", "0.9", "1", "-1", "2", "NaN", "0.25", "0.99", "Inf"}, "phi")
		}
		var arg string
		switch ir(t, 0, 4, "histarg") {
		case 0, 1:
			arg = "h_bucket" + g.modifiers()
		case 2:
			arg = "sum by (le" + pick(t, []string{"", ",a", ",b"}, "histby") + ") (h_bucket)"
		case 3:
			arg = pick(t, []string{"max", "sum", "min"}, "histagg") + " without (" + pick(t, []string{"a", "b", "c", "a,c"}, "histwo") + ") (h_bucket" + g.modifiers() + ")"
		default:
			arg = "h_bucket{" + pick(t, []string{"le!=\"x\"", "a=~\".*\"", "le=~\".+\",b!=\"9\""}, "histm") + "}" + g.modifiers()
		}
		return "histogram_quantile(" + phi + ", " + arg + ")", R
	case "func":
		k := ir(t, 0, 9, "fkind")
		switch {
		case k <= 5:
			var ok []ifn
			for _, f := range instFns {
				ok = append(ok, f)
			}
			f := pick(t, ok, "ifn")
			am := max
			if !f.lip {
				am = minCls(max, I)
			}
			v, c := g.Vector(depth-1, am)
			switch {
			case c == S && f.keepS:
				return f.name + "(" + v + ")", S
			case c <= I:
				return f.name + "(" + v + ")", I
			}
			return f.name + "(" + v + ")", R
		case k == 6:
			v, _ := g.Vector(depth-1, max)
			return "timestamp(" + v + ")", I
		default:
			fn := pick(t, []string{"clamp", "clamp_min", "clamp_max"}, "clampfn")
			v, c := g.Vector(depth-1, max)
			a, ca := g.Scalar(depth-1, max)
			if fn == "clamp" {
				// max<min drops samples: a discontinuous decision on the bounds, so they must be stable.
				a, ca = g.Scalar(depth-1, minCls(max, I))
				b, cb := g.Scalar(depth-1, minCls(max, I))
				return "clamp(" + v + ", " + a + ", " + b + ")", maxCls(c, maxCls(ca, cb))
			}
			return fn + "(" + v + ", " + a + ")", maxCls(c, ca)
		}
	case "agg":
		var ops []string
		for _, op := range AggOps {
			switch op {
			case "avg", "stddev", "stdvar", "quantile":
				if max < R {
					continue
				}
			case "min", "max":
				if g.zeroSign > 0 {
					continue
				}
			}
			ops = append(ops, op)
		}
		op := pick(t, ops, "aggop")
		grp := g.grouping()
		am := max
		switch op {
		case "sum":
			if max < R {
				am = S
			}
		case "topk", "bottomk":
			am = minCls(max, I)
		case "count", "group":
			am = R
		}
		v, c := g.Vector(depth-1, am)
		rc := c
		switch op {
		case "sum":
			if c != S {
				rc = R
			}
		case "count", "group":
			rc = S
		case "avg", "stddev", "stdvar", "quantile":
			rc = R
		}
		param := ""
		switch op {
		case "topk", "bottomk":
			param = g.kParam(depth) + ", "
		case "quantile":
			p, _ := g.Scalar(depth-1, I)
			qk := ir(t, 0, 5, "qkind")
			if g.p.VaryParams && chance(t, 2, 3, "qvary") {
				qk = 3
			}
			switch qk {
			case 0, 1, 2:
				p = pick(t, []string{"0", "0.5", "0.9", "1", "-1", "2", "NaN", "0.25", "Inf"}, "q")
			case 3:
				if !g.p.NoScalarFn {
					// a quantile that changes from step to step and is absent at some steps
					sel := pick(t, g.p.Metrics, "qmetric") + "{" + pick(t, []string{"a=\"1\"", "b=\"2\"", "a=\"3\",b=\"1\"", "c=\"1\""}, "qmatch") + "}" + g.modifiers()
					p = pick(t, []string{"scalar(%s) / 64", "scalar(%s)", "scalar(abs(%s)) / 16", "scalar(count(%s)) / 4"}, "qshape")
					p = strings.Replace(p, "%s", sel, 1)
				}
			}
			param = p + ", "
		}
		if chance(t, 1, 2, "grpfirst") && grp != "" {
			return op + grp + "(" + param + v + ")", rc
		}
		return op + "(" + param + v + ")" + grp, rc
	case "binary":
		cmp := chance(t, 2, 5, "iscmp")
		var op string
		if cmp {
			op = pick(t, cmpOps, "cmpop")
		} else {
			op = pick(t, arithOps, "arithop")
		}
		lm, rm := max, max
		switch {
		case cmp:
			lm, rm = minCls(max, I), minCls(max, I)
		case op == "/":
			rm = minCls(max, I)
		case op == "%" || op == "^" || op == "atan2":
			lm, rm = minCls(max, I), minCls(max, I)
		}
		if op == "/" || op == "^" || op == "atan2" {
			g.zeroSign++
			defer func() { g.zeroSign-- }()
		}
		shape := ir(t, 0, 5, "binshape") // 0-2 vec-vec, 3 vec-scalar, 4 scalar-vec, 5 vec-vec
		boolMod := ""
		if cmp && chance(t, 1, 3, "bool") {
			boolMod = " bool"
		}
		switch shape {
		case 3:
			v, cv := g.Vector(depth-1, lm)
			s, cs := g.Scalar(depth-1, rm)
			return paren(v) + " " + op + boolMod + " " + paren(s), g.binCls(cmp, boolMod, op, cv, cs, cv)
		case 4:
			s, cs := g.Scalar(depth-1, lm)
			v, cv := g.Vector(depth-1, rm)
			return paren(s) + " " + op + boolMod + " " + paren(v), g.binCls(cmp, boolMod, op, cs, cv, cv)
		default:
			l, cl := g.Vector(depth-1, lm)
			r, cr := g.Vector(depth-1, rm)
			m := g.matching(true)
			return paren(l) + " " + op + boolMod + m + " " + paren(r), g.binCls(cmp, boolMod, op, cl, cr, cl)
		}
	}
	panic("unknown production " + which)
}

func (g *G) binCls(cmp bool, boolMod, op string, l, r, kept Cls) Cls {
	if cmp {
		if boolMod != "" {
			return S
		}
		return kept
	}
	return arithCls(op, l, r)
}

func (g *G) kParam(depth int) string {
	t := g.t
	kk := ir(t, 0, 9, "kkind")
	if g.p.VaryParams && chance(t, 2, 3, "kvary") {
		kk = 1 + ir(t, 0, 1, "kvarykind")
	}
	switch kk {
	case 0:
		return pick(t, []string{"0", "-1", "NaN", "1e300", "Inf", "-Inf", "9223372036854775808", "0.5", "2.7"}, "kodd")
	case 1:
		if !g.p.NoScalarFn {
			return pick(t, []string{"time() / 1000", "scalar(count(m))", "scalar(m)", "1 + 1", "scalar(n{a=\"1\"})"}, "kexpr")
		}
		return "2"
	case 2:
		if !g.p.NoScalarFn {
			// a parameter that reads series, with its own offset / @ modifiers
			if chance(t, 1, 2, "kagg") {
				return "scalar(" + pick(t, []string{"count", "max", "min"}, "kaggop") + "(" + g.selector() + "))"
			}
			return "scalar(" + pick(t, g.p.Metrics, "kmetric") + "{" + pick(t, []string{"a=\"1\"", "b=\"2\"", "a=\"3\",b=\"1\""}, "kmatch") + "}" + g.modifiers() + ")"
		}
		return "3"
	default:
		return strconv.Itoa(ir(t, 1, 5, "k"))
	}
}

// Query draws a complete query according to the profile; typ is "vector" or "scalar".
func (g *G) Query() (q string, typ string, cls Cls) {
	t := g.t
	if g.p.Focus == "" && !g.p.NoScalarFn && chance(t, 1, 12, "scalartop") {
		s, c := g.Scalar(g.p.MaxDepth, R)
		return s, "scalar", c
	}
	d := g.p.MaxDepth - pick(t, []int{0, 0, 0, 1, 1, 2, 3}, "depthdrop")
	if d < 1 {
		d = 1
	}
	if g.p.Focus == "scalar" {
		s, c := g.Scalar(g.p.MaxDepth, R)
		return s, "scalar", c
	}
	if g.p.Focus != "" {
		s, c := g.vectorProd(g.p.Focus, d, R)
		return s, "vector", c
	}
	s, c := g.Vector(d, R)
	return s, "vector", c
}

var _ = rapid.Bool
