// Package xproc is the parent/child transport: the rapid process sends one case per
// line to a long-lived executor child and reads one verdict per line. Child death
// and hangs become verdicts.
package xproc

import (
	"bufio"
	"encoding/json"
	"fmt"
	"io"
	"os"
	"os/exec"
	"strings"
	"sync"
	"syscall"
	"time"

	"verifharness/core"
)

// Serve is the child main loop.
func Serve(eval func(*core.Case) core.Verdict) {
	// An executor must not outlive its parent: a case that spins inside the engine never
	// comes back to read the closed pipe, and a killed parent cannot kill it any more.
	go func() {
		pp := os.Getppid()
		for {
			time.Sleep(2 * time.Second)
			if os.Getppid() != pp {
				os.Exit(3)
			}
		}
	}()
	in := os.NewFile(3, "verif-in")
	out := os.NewFile(4, "verif-out")
	rd := bufio.NewReaderSize(in, 1<<20)
	w := bufio.NewWriter(out)
	for {
		line, err := rd.ReadBytes('\n')
		if len(line) > 0 {
			var c core.Case
			var v core.Verdict
			if jerr := json.Unmarshal(line, &c); jerr != nil {
				v = core.Verdict{Status: "infra", Detail: "bad case json: " + jerr.Error()}
			} else {
				v = eval(&c)
			}
			b, _ := json.Marshal(v)
			w.Write(b)
			w.WriteByte('\n')
			w.Flush()
		}
		if err != nil {
			return
		}
	}
}

type ring struct {
	mu  sync.Mutex
	buf []byte
}

func (r *ring) Write(p []byte) (int, error) {
	r.mu.Lock()
	defer r.mu.Unlock()
	r.buf = append(r.buf, p...)
	if len(r.buf) > 1<<18 {
		r.buf = append([]byte(nil), r.buf[len(r.buf)-1<<17:]...)
	}
	return len(p), nil
}

func (r *ring) String() string {
	r.mu.Lock()
	defer r.mu.Unlock()
	return string(r.buf)
}

func (r *ring) Reset() {
	r.mu.Lock()
	r.buf = r.buf[:0]
	r.mu.Unlock()
}

// Child is one executor process.
type Child struct {
	Args    []string
	Env     []string
	cmd     *exec.Cmd
	toChild *os.File
	from    *bufio.Reader
	fromF   *os.File
	stderr  *ring
	done    chan struct{}
	Starts  int
}

func (c *Child) start() error {
	inR, inW, err := os.Pipe()
	if err != nil {
		return err
	}
	outR, outW, err := os.Pipe()
	if err != nil {
		return err
	}
	cmd := exec.Command(c.Args[0], c.Args[1:]...)
	cmd.Env = append(os.Environ(), "VERIF_EXECUTOR=1")
	cmd.Env = append(cmd.Env, c.Env...)
	cmd.ExtraFiles = []*os.File{inR, outW}
	c.stderr = &ring{}
	cmd.Stderr = c.stderr
	cmd.Stdout = c.stderr
	if err := cmd.Start(); err != nil {
		return err
	}
	inR.Close()
	outW.Close()
	c.cmd = cmd
	c.toChild = inW
	c.fromF = outR
	c.from = bufio.NewReaderSize(outR, 1<<20)
	c.done = make(chan struct{})
	c.Starts++
	go func(cmd *exec.Cmd, done chan struct{}) {
		cmd.Wait()
		close(done)
	}(cmd, c.done)
	return nil
}

func (c *Child) kill() {
	if c.cmd == nil {
		return
	}
	c.cmd.Process.Kill()
	<-c.done
	c.toChild.Close()
	c.fromF.Close()
	c.cmd = nil
}

// Close terminates the child.
func (c *Child) Close() { c.kill() }

func tail(s string, n int) string {
	if len(s) <= n {
		return s
	}
	return "...\n" + s[len(s)-n:]
}

// head returns the interesting part of a crash report: the first lines (panic
// message / race report) and a bounded amount of what follows.
func crashText(s string) string {
	i := strings.Index(s, "panic:")
	j := strings.Index(s, "fatal error:")
	k := strings.Index(s, "WARNING: DATA RACE")
	start := -1
	for _, x := range []int{i, j, k} {
		if x >= 0 && (start < 0 || x < start) {
			start = x
		}
	}
	if start < 0 {
		return tail(s, 6000)
	}
	s = s[start:]
	if len(s) > 8000 {
		s = s[:8000] + "\n..."
	}
	return s
}

// Run sends one case and waits for its verdict.
func (c *Child) Run(cs *core.Case, timeout time.Duration) core.Verdict {
	if c.cmd == nil {
		if err := c.start(); err != nil {
			return core.Verdict{Status: "infra", Detail: "cannot start executor: " + err.Error()}
		}
	}
	c.stderr.Reset()
	line := append(cs.JSON(), '\n')
	if _, err := c.toChild.Write(line); err != nil {
		st := c.stderr.String()
		c.kill()
		return core.Verdict{Status: "infra", Detail: "write to executor failed: " + err.Error() + "\n" + tail(st, 2000)}
	}
	type rd struct {
		b   []byte
		err error
	}
	ch := make(chan rd, 1)
	go func() {
		b, err := c.from.ReadBytes('\n')
		ch <- rd{b, err}
	}()
	select {
	case r := <-ch:
		if r.err != nil {
			// Child died.
			select {
			case <-c.done:
			case <-time.After(5 * time.Second):
			}
			st := c.stderr.String()
			state := ""
			if c.cmd != nil && c.cmd.ProcessState != nil {
				state = c.cmd.ProcessState.String()
			}
			c.kill()
			if r.err != io.EOF {
				return core.Verdict{Status: "infra", Detail: "read from executor: " + r.err.Error()}
			}
			if strings.Contains(state, "signal: killed") && !strings.Contains(st, "panic") && !strings.Contains(st, "fatal error") {
				return core.Verdict{Status: "infra", Detail: "executor killed (" + state + "), likely out of memory"}
			}
			return core.Verdict{Status: "crash", Detail: fmt.Sprintf("executor process died (%s):\n%s", state, crashText(st))}
		}
		var v core.Verdict
		if err := json.Unmarshal(r.b, &v); err != nil {
			c.kill()
			return core.Verdict{Status: "infra", Detail: "bad verdict json: " + err.Error()}
		}
		if v.Restart {
			c.kill()
		}
		return v
	case <-time.After(timeout):
		// Dump goroutines, then kill.
		c.cmd.Process.Signal(syscall.SIGQUIT)
		select {
		case <-c.done:
		case <-time.After(10 * time.Second):
		}
		st := c.stderr.String()
		c.kill()
		return core.Verdict{Status: "hang", Detail: fmt.Sprintf("no verdict within %s; goroutine dump:\n%s", timeout, tail(st, 12000))}
	}
}
