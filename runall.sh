#!/bin/bash
# usage: runall.sh [tier] [ID...] -- run every registered check (or the listed ones) once, print exit code and wall time
cd "$(dirname "$(readlink -f "$0")")"
tier=${1:-quick}
shift
ids=${@:-C01 C02 C03 C04 C05 C06 C07 C08 C09 C10 C11 C12 C13 C14 C15 C16 C17 C18 C19 C20}
for p in $ids; do
  s=$(date +%s)
  ./check $p --tier $tier > /tmp/runall-$p.log 2>&1
  rc=$?
  e=$(date +%s)
  echo "$p rc=$rc $((e-s))s $(grep -E '^property=' /tmp/runall-$p.log | cut -c1-160)"
  grep -E "^(VIOLATION|INCONCLUSIVE|KNOWN-FINDING)" /tmp/runall-$p.log | cut -c1-200
done
